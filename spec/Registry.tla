------------------------------ MODULE Registry ------------------------------
(***************************************************************************)
(* The name registries (KnownValuesStore, FunctionsStore, ParametersStore) *)
(* and the format context as a sequential state machine.  Locks.tla treats *)
(* the registries as opaque critical sections; this module says what they  *)
(* contain.                                                                *)
(*                                                                         *)
(*  - A KnownValuesStore is TWO maps: raw value -> entry and assigned name *)
(*    -> entry.  insert() overwrites the value's entry and, if the entry   *)
(*    has a name, the name's entry; an older name of the same value keeps  *)
(*    resolving (the code never removes it) - modelled as it is.           *)
(*  - Functions / parameters stores: one map, entry -> its own name (the   *)
(*    decimal value when the entry has none).                              *)
(*  - A FormatContext is a COPY of three stores taken when it is made; the *)
(*    summarizers that register_tags_in installs for tagged leaves copy    *)
(*    the stores once more.  Later inserts into the stores do not reach    *)
(*    it.  Without registration a tagged function / parameter / known      *)
(*    value inside a leaf prints as CBOR diagnostic notation.              *)
(* Every step is followed by the full projection of the state through the  *)
(* query API and through format() of three probe envelopes per code.       *)
(***************************************************************************)
EXTENDS Naturals, Sequences, FiniteSets, TLC, Json

CONSTANTS Codes, Names, MaxOps
NoName == "~"
NameOpt == Names \cup {NoName}

VARIABLES kvByValue, kvByName, fnDict, pmDict, ctx, hist
rvars == <<kvByValue, kvByName, fnDict, pmDict, ctx, hist>>

Absent == <<"absent">>
Entry(c, n) == <<"entry", c, n>>
NoCtx == [made |-> FALSE, registered |-> FALSE, kv |-> [c \in Codes |-> Absent], fn |-> [c \in Codes |-> Absent], pm |-> [c \in Codes |-> Absent]]

RInit == /\ kvByValue = [c \in Codes |-> Absent] /\ kvByName = [n \in Names |-> Absent]
         /\ fnDict = [c \in Codes |-> Absent] /\ pmDict = [c \in Codes |-> Absent]
         /\ ctx = NoCtx /\ hist = << >>

Dec(c) == ToString(c)
(* name of an entry of its own: the assigned name or the decimal value *)
OwnName(c, n) == IF n = NoName THEN Dec(c) ELSE n

KvInsert(c, n) ==
  /\ kvByValue' = [kvByValue EXCEPT ![c] = Entry(c, n)]
  /\ kvByName' = IF n = NoName THEN kvByName ELSE [kvByName EXCEPT ![n] = Entry(c, n)]
  /\ hist' = Append(hist, <<"kv_insert", c, n>>)
  /\ UNCHANGED <<fnDict, pmDict, ctx>>
FnInsert(c, n) ==
  /\ fnDict' = [fnDict EXCEPT ![c] = Entry(c, OwnName(c, n))]
  /\ hist' = Append(hist, <<"fn_insert", c, n>>)
  /\ UNCHANGED <<kvByValue, kvByName, pmDict, ctx>>
PmInsert(c, n) ==
  /\ pmDict' = [pmDict EXCEPT ![c] = Entry(c, OwnName(c, n))]
  /\ hist' = Append(hist, <<"pm_insert", c, n>>)
  /\ UNCHANGED <<kvByValue, kvByName, fnDict, ctx>>
(* FormatContext::new(.., Some(&kv), Some(&fns), Some(&params)), optionally followed by register_tags_in *)
MakeCtx(reg) ==
  /\ ctx' = [made |-> TRUE, registered |-> reg, kv |-> kvByValue, fn |-> fnDict, pm |-> pmDict]
  /\ hist' = Append(hist, <<"make_context", reg>>)
  /\ UNCHANGED <<kvByValue, kvByName, fnDict, pmDict>>

RNext == /\ Len(hist) < MaxOps
         /\ \/ \E c \in Codes, n \in NameOpt : KvInsert(c, n) \/ FnInsert(c, n) \/ PmInsert(c, n)
            \/ \E r \in BOOLEAN : MakeCtx(r)
RSpec == RInit /\ [][RNext]_rvars

(* ---- the projection -------------------------------------------------------------------*)
Opt(x) == IF x = Absent \/ x[3] = NoName THEN <<"none">> ELSE <<"some", x[3]>>
KvAssignedName(byValue, c) == Opt(byValue[c])
KvName(byValue, c) == IF byValue[c] # Absent /\ byValue[c][3] # NoName THEN byValue[c][3] ELSE Dec(c)
FnName(d, c) == IF d[c] # Absent THEN d[c][3] ELSE Dec(c)
(* how a leaf holding tagged CBOR (#6.40006(c) function, #6.40007(c) parameter, #6.40000(c) known value)
   is summarised by a context *)
Summ(x, kind, c) ==
  IF x.made /\ x.registered
  THEN <<"named", kind, CASE kind = "fn" -> FnName(x.fn, c) [] kind = "pm" -> FnName(x.pm, c) [] kind = "kv" -> KvName(x.kv, c)>>
  ELSE <<"diag", kind, c>>
Projection ==
  [ kv_assigned  |-> [c \in Codes |-> KvAssignedName(kvByValue', c)],
    kv_name      |-> [c \in Codes |-> KvName(kvByValue', c)],
    kv_named     |-> [n \in Names |-> IF kvByName'[n] = Absent THEN <<"none">> ELSE <<"some", kvByName'[n][2]>>],
    kv_raw_name  |-> [c \in Codes |-> KvName(kvByValue', c)],
    fn_assigned  |-> [c \in Codes |-> IF fnDict'[c] = Absent THEN <<"none">> ELSE <<"some", fnDict'[c][3]>>],
    fn_name      |-> [c \in Codes |-> FnName(fnDict', c)],
    pm_assigned  |-> [c \in Codes |-> IF pmDict'[c] = Absent THEN <<"none">> ELSE <<"some", pmDict'[c][3]>>],
    pm_name      |-> [c \in Codes |-> FnName(pmDict', c)],
    \* format() under the context: a known-value envelope reads the context's own store;
    \* tagged leaves go through the summarizers
    fmt_kv_case  |-> [c \in Codes |-> KvName(ctx'.kv, c)],
    fmt_fn_leaf  |-> [c \in Codes |-> Summ(ctx', "fn", c)],
    fmt_pm_leaf  |-> [c \in Codes |-> Summ(ctx', "pm", c)],
    fmt_kv_leaf  |-> [c \in Codes |-> Summ(ctx', "kv", c)] ]

(* invariants of the design *)
TypeOK == /\ \A c \in Codes : kvByValue[c] = Absent \/ kvByValue[c][2] = c
          /\ \A c \in Codes : fnDict[c] = Absent \/ fnDict[c][3] # NoName
(* a name that resolves, resolves to a value that has been inserted with that name *)
NamesComeFromInserts ==
  \A n \in Names : kvByName[n] # Absent =>
     \E i \in 1..Len(hist) : hist[i] = <<"kv_insert", kvByName[n][2], n>>
(* the latest insertion of a value decides its assigned name *)
LatestWins ==
  \A c \in Codes : kvByValue[c] # Absent =>
     LET idx == {i \in 1..Len(hist) : hist[i][1] = "kv_insert" /\ hist[i][2] = c} IN
     idx # {} /\ hist[CHOOSE i \in idx : \A j \in idx : j <= i][3] = kvByValue[c][3]
(* a context never changes except by being made again *)
CtxFrozen == [][(hist' # hist /\ hist'[Len(hist')][1] # "make_context") => ctx' = ctx]_rvars

REmit == PrintT(<<"BEH", ToJson([steps |-> hist', projection |-> Projection])>>)
=============================================================================
