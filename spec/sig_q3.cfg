CONSTANTS
  Atoms <- sig_q3_Atoms
  KVs = {1}
  NReg = 1
  Keys = {"k1"}
  MaxSize = 40
  MaxT = 1
  Phases <- sig_q3_Phases
  ShapeSet <- sig_q3_Shapes
  Signers = {"s1", "s2", "s3"}
  Recipients = {"r1", "r2"}
  Policies <- sig_q3_Policies
  CfgName = "sig_q3"
INIT Init
NEXT Next
VIEW View
CONSTRAINT Bounded
ACTION_CONSTRAINT Emit
CHECK_DEADLOCK FALSE
INVARIANTS WellFormedInv
PROPERTIES C09Prop
