CONSTANTS
  Atoms <- core_q_Atoms
  KVs = {1}
  NReg = 2
  Keys = {"k1"}
  MaxSize = 7
  MaxT = 2
  Phases <- core_q_Phases
  ShapeSet <- core_q_Shapes
  Signers = {"s1", "s2"}
  Recipients = {"r1", "r2"}
  Policies <- core_q_Policies
  CfgName = "core_q"
INIT Init
NEXT Next
VIEW View
CONSTRAINT Bounded
ACTION_CONSTRAINT Emit
CHECK_DEADLOCK FALSE
INVARIANTS WellFormedInv DeclaredDigestHonest RevealKeepsDigest C07Laws
PROPERTIES C02Prop C03Prop C07Prop
