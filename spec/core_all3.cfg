CONSTANTS
  Atoms <- core_all3_Atoms
  KVs = {1}
  NReg = 2
  Keys = {"k1"}
  MaxSize = 7
  MaxT = 2
  Phases <- core_all3_Phases
  ShapeSet <- core_all3_Shapes
  Signers = {"s1", "s2"}
  Recipients = {"r1", "r2"}
  Policies <- core_all3_Policies
  CfgName = "core_all3"
INIT Init
NEXT Next
VIEW View
CONSTRAINT Bounded
ACTION_CONSTRAINT Emit
CHECK_DEADLOCK FALSE
INVARIANTS WellFormedInv DeclaredDigestHonest RevealKeepsDigest
PROPERTIES C02Prop C03Prop C07Prop
