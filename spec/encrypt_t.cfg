CONSTANTS
  Atoms <- encrypt_t_Atoms
  KVs = {1}
  NReg = 2
  Keys = {"k1", "k2"}
  MaxSize = 9
  MaxT = 1
  Phases <- encrypt_t_Phases
  ShapeSet <- encrypt_t_Shapes
  Signers = {"s1", "s2"}
  Recipients = {"r1", "r2"}
  Policies <- encrypt_t_Policies
  CfgName = "encrypt_t"
INIT Init
NEXT Next
VIEW View
CONSTRAINT Bounded
ACTION_CONSTRAINT Emit
CHECK_DEADLOCK FALSE
INVARIANTS WellFormedInv C08Laws
PROPERTIES C02Prop C08Prop C07Prop
