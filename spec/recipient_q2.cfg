CONSTANTS
  Atoms <- recipient_q2_Atoms
  KVs = {1}
  NReg = 1
  Keys = {"k1"}
  MaxSize = 30
  MaxT = 1
  Phases <- recipient_q2_Phases
  ShapeSet <- recipient_q2_Shapes
  Signers = {"s1", "s2"}
  Recipients = {"r1", "r2"}
  Policies <- recipient_q2_Policies
  CfgName = "recipient_q2"
INIT Init
NEXT Next
VIEW View
CONSTRAINT Bounded
ACTION_CONSTRAINT Emit
CHECK_DEADLOCK FALSE
INVARIANTS WellFormedInv
PROPERTIES C10Prop
