CONSTANTS
  Atoms <- deep_s_Atoms
  KVs = {1}
  NReg = 2
  Keys = {"k1"}
  MaxSize = 14
  MaxT = 1
  Phases <- deep_s_Phases
  ShapeSet <- deep_s_Shapes
  Signers = {"s1", "s2"}
  Recipients = {"r1", "r2"}
  Policies <- deep_s_Policies
  CfgName = "deep_s"
INIT Init
NEXT Next
VIEW View
CONSTRAINT Bounded
ACTION_CONSTRAINT Emit
CHECK_DEADLOCK FALSE
INVARIANTS WellFormedInv
PROPERTIES C02Prop C03Prop C07Prop C13Prop C08Prop
