CONSTANTS
  Atoms <- query_t_Atoms
  KVs = {1}
  NReg = 1
  Keys = {"k1"}
  MaxSize = 14
  MaxT = 2
  Phases <- query_t_Phases
  ShapeSet <- query_t_Shapes
  Signers = {"s1", "s2"}
  Recipients = {"r1", "r2"}
  Policies <- query_t_Policies
  CfgName = "query_t"
INIT Init
NEXT Next
VIEW View
CONSTRAINT Bounded
ACTION_CONSTRAINT Emit
CHECK_DEADLOCK FALSE
INVARIANTS WellFormedInv DeclaredDigestHonest RevealKeepsDigest C15Laws
PROPERTIES C02Prop C03Prop C07Prop
