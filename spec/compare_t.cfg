CONSTANTS
  Atoms <- compare_t_Atoms
  KVs = {1}
  NReg = 2
  Keys = {"k1"}
  MaxSize = 9
  MaxT = 2
  Phases <- compare_t_Phases
  ShapeSet <- compare_t_Shapes
  Signers = {"s1", "s2"}
  Recipients = {"r1", "r2"}
  Policies <- compare_t_Policies
  CfgName = "compare_t"
INIT Init
NEXT Next
VIEW View
CONSTRAINT Bounded
ACTION_CONSTRAINT Emit
CHECK_DEADLOCK FALSE
INVARIANTS WellFormedInv DeclaredDigestHonest C14Laws
PROPERTIES C02Prop C14Prop C07Prop
