CONSTANTS
  Atoms <- A2
  KVs = {1}
  NReg = 2
  Keys = {"k1"}
  MaxDepth = 3
  MaxSize = 7
  Enabled = {"construct","assertions","navigate","wrap","elide","compress","encrypt","codec"}
  MaxT = 2
  ShapeSet <- NoShapes
  CfgName = "core.all3"
INIT Init
NEXT Next
VIEW View
CONSTRAINT Bounded
ACTION_CONSTRAINT Emit
INVARIANT WellFormedInv
CHECK_DEADLOCK FALSE
