CONSTANTS
  Atoms <- decode_t_Atoms
  KVs = {1}
  NReg = 1
  Keys = {"k1"}
  MaxSize = 12
  MaxT = 1
  Phases <- decode_t_Phases
  ShapeSet <- decode_t_Shapes
  Signers = {"s1", "s2"}
  Recipients = {"r1", "r2"}
  Policies <- decode_t_Policies
  CfgName = "decode_t"
INIT Init
NEXT Next
VIEW View
CONSTRAINT Bounded
ACTION_CONSTRAINT Emit
CHECK_DEADLOCK FALSE
INVARIANTS WellFormedInv C05RoundTrip
PROPERTIES C06Prop
