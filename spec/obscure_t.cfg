CONSTANTS
  Atoms <- obscure_t_Atoms
  KVs = {1}
  NReg = 1
  Keys = {"k1"}
  MaxSize = 14
  MaxT = 2
  Phases <- obscure_t_Phases
  ShapeSet <- obscure_t_Shapes
  Signers = {"s1", "s2"}
  Recipients = {"r1", "r2"}
  Policies <- obscure_t_Policies
  CfgName = "obscure_t"
INIT Init
NEXT Next
VIEW View
CONSTRAINT Bounded
ACTION_CONSTRAINT Emit
CHECK_DEADLOCK FALSE
INVARIANTS WellFormedInv DeclaredDigestHonest RevealKeepsDigest
PROPERTIES C02Prop C03Prop C07Prop
