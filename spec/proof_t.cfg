CONSTANTS
  Atoms <- proof_t_Atoms
  KVs = {1}
  NReg = 2
  Keys = {"k1"}
  MaxSize = 12
  MaxT = 2
  Phases <- proof_t_Phases
  ShapeSet <- proof_t_Shapes
  Signers = {"s1", "s2"}
  Recipients = {"r1", "r2"}
  Policies <- proof_t_Policies
  CfgName = "proof_t"
INIT Init
NEXT Next
VIEW View
CONSTRAINT Bounded
ACTION_CONSTRAINT Emit
CHECK_DEADLOCK FALSE
INVARIANTS WellFormedInv
PROPERTIES C12Prop
