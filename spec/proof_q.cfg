CONSTANTS
  Atoms <- proof_q_Atoms
  KVs = {1}
  NReg = 2
  Keys = {"k1"}
  MaxSize = 12
  MaxT = 2
  Phases <- proof_q_Phases
  ShapeSet <- proof_q_Shapes
  Signers = {"s1", "s2"}
  Recipients = {"r1", "r2"}
  Policies <- proof_q_Policies
  CfgName = "proof_q"
INIT Init
NEXT Next
VIEW View
CONSTRAINT Bounded
ACTION_CONSTRAINT Emit
CHECK_DEADLOCK FALSE
INVARIANTS WellFormedInv
PROPERTIES C12Prop
