------------------------------- MODULE Shapes -------------------------------
(***************************************************************************)
(* Enumeration of all clear envelopes up to a given number of elements     *)
(* over a set of simple values: every case, nesting, nodes with one or two *)
(* assertions, assertions carrying assertions, predicates and objects that *)
(* are nodes or wrapped.  Used as the input universe ("all envelopes") of  *)
(* the bounded instances; each shape enters a register through the "build" *)
(* call, which the replayer executes as a canonical program of public API  *)
(* calls.                                                                  *)
(***************************************************************************)
EXTENDS EnvelopeOps

RECURSIVE Sh(_, _), ShUpTo(_, _)
\* assertion-like envelopes of size exactly m (an assertion, or a node whose subject is one)
AL(B, m) == {e \in Sh(B, m) : AssertionLike(e)}
\* non-empty sets of one or two assertion-like envelopes of total size m
ASets(B, m) ==
  {{a} : a \in AL(B, m)}
  \cup UNION {{{a, b} : a \in AL(B, i), b \in AL(B, m - i)} : i \in 3..(m - 3)}
NodesOf(B, n) ==
  UNION {{Node(s, A) : s \in {x \in Sh(B, i) : ~IsNode(x)},
                       A \in {S \in ASets(B, n - 1 - i) :
                                /\ Cardinality({Dg(a) : a \in S}) = Cardinality(S)
                                /\ SumSize(S) = n - 1 - i}}
         : i \in 1..(n - 4)}
Sh(B, n) ==
  IF n = 1 THEN B
  ELSE {Wrap(e) : e \in Sh(B, n - 1)}
       \cup UNION {{Assn(p, o) : p \in Sh(B, i), o \in Sh(B, n - 1 - i)} : i \in 1..(n - 2)}
       \cup (IF n >= 5 THEN NodesOf(B, n) ELSE {})
\* nodes whose subject is itself a node (reachable through the decoder and through
\* decrypt_subject; the replayer assembles them by hiding the subject while adding)
NodeSubjectNodes(B, n) ==
  {Node(s, {a}) : s \in {x \in ShUpTo(B, n - 4) : IsNode(x)}, a \in AL(B, 3)}
\* nodes one of whose assertions carries an assertion of its own (e.g. a salted or
\* annotated assertion)
Decorated(B) == {Node(s, {Node(Assn(p, o), {Assn(p2, o2)})}) : s \in B, p \in B, o \in B, p2 \in B, o2 \in B}
\* nodes with two / three simple assertions (ordering of assertion elements matters on the wire)
Nodes2(B) == {Node(s, {a, b}) : s \in B, a \in AL(B, 3), b \in AL(B, 3)} \ {Node(s, {a}) : s \in B, a \in AL(B, 3)}
Nodes3(B) == {Node(s, {a, b, c}) : s \in B, a \in AL(B, 3), b \in AL(B, 3), c \in AL(B, 3)}
             \ ({Node(s, {a}) : s \in B, a \in AL(B, 3)} \cup Nodes2(B))
\* nodes with four / five simple assertions (removal from the middle of the sorted list)
Nodes4(B) == {Node(s, A) : s \in B, A \in {Q \in SUBSET AL(B, 3) : Cardinality(Q) = 4}}
Nodes5(B) == {Node(s, A) : s \in B, A \in {Q \in SUBSET AL(B, 3) : Cardinality(Q) = 5}}
\* leaves holding a CBOR-tagged known value (same digest as the known value itself)
TkvShapes == {Leaf(TKV(1)), Wrap(Leaf(TKV(1))), Assn(Leaf(TKV(1)), KV(1)),
              Node(Leaf(TKV(1)), {Assn(KV(1), Leaf(TKV(1)))}), Node(KV(1), {Assn(Leaf(TKV(1)), KV(1))})}
\* a leaf holding a byte string whose bytes are themselves a CBOR item (h'182a' = the integer 42)
BstrShapes == {Leaf(<<"str", "">>), Assn(Leaf(<<"str", "">>), Leaf(<<"str", "">>)), Node(Leaf(<<"str", "">>), {Assn(KV(1), Leaf(<<"str", "">>))}),
               Leaf(<<"cborhex", "42182a">>), Assn(KV(1), Leaf(<<"cborhex", "42182a">>)),
               Node(Leaf(<<"cborhex", "4101">>), {Assn(KV(1), Leaf(<<"cborhex", "42182a">>))})}
\* wrapped envelopes next to assertions: wrapped subject, wrapped object
WrapNodes(B) == {Node(Wrap(s), {a}) : s \in B, a \in AL(B, 3)}
                \cup {Node(s, {Assn(p, Wrap(o)), a}) : s \in B, p \in B, o \in B, a \in AL(B, 3)}
\* two assertion elements that are nodes over the SAME inner assertion with different decorations
\* (e.g. the same assertion salted twice)
TwinDecorated(B) == {Node(s, {Node(Assn(p, o), {Assn(KV(4), p)}), Node(Assn(p, o), {Assn(KV(4), o)})}) :
                       s \in B, p \in B, o \in B} \ {Node(s, {Node(Assn(p, p), {Assn(KV(4), p)})}) : s \in B, p \in B}
\* an assertion element decorated twice (a node over a node over an assertion)
DeepDecorated(B) == {Node(s, {Node(Node(Assn(p, o), {Assn(KV(4), p)}), {Assn(KV(4), o)})}) : s \in B, p \in B, o \in B}
\* the same assertion at two depths: on the subject and on a nested object (multi-position targets)
MultiPos(B) == {Node(s, {a, Assn(p, Node(o, {a}))}) : s \in B, p \in B, o \in B, a \in AL(B, 3)}
ShUpTo(B, n) == IF n = 0 THEN {} ELSE Sh(B, n) \cup ShUpTo(B, n - 1)
=============================================================================
