SPECIFICATION LTSpec
POSTCONDITION LTAccepted
CHECK_DEADLOCK FALSE
