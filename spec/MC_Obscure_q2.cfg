CONSTANTS
  Atoms <- A2
  KVs = {1}
  NReg = 1
  Keys = {"k1"}
  MaxDepth = 3
  MaxSize = 12
  Enabled = {"build","elide","compress","encrypt"}
  MaxT = 2
  ShapeSet <- Sh3_4
  CfgName = "obscure.q2"
INIT Init
NEXT Next
VIEW View
CONSTRAINT Bounded
ACTION_CONSTRAINT Emit
INVARIANT WellFormedInv
CHECK_DEADLOCK FALSE
