CONSTANTS
  Atoms <- recipient_q_Atoms
  KVs = {1}
  NReg = 1
  Keys = {"k1"}
  MaxSize = 30
  MaxT = 1
  Phases <- recipient_q_Phases
  ShapeSet <- recipient_q_Shapes
  Signers = {"s1", "s2"}
  Recipients = {"r1", "r2"}
  Policies <- recipient_q_Policies
  CfgName = "recipient_q"
INIT Init
NEXT Next
VIEW View
CONSTRAINT Bounded
ACTION_CONSTRAINT Emit
CHECK_DEADLOCK FALSE
INVARIANTS WellFormedInv
PROPERTIES C10Prop
