CONSTANTS
  Atoms <- expr_t_Atoms
  KVs = {1}
  NReg = 1
  Keys = {"k1"}
  MaxSize = 30
  MaxT = 1
  Phases <- expr_t_Phases
  ShapeSet <- expr_t_Shapes
  Signers = {"s1", "s2"}
  Recipients = {"r1", "r2"}
  Policies <- expr_t_Policies
  CfgName = "expr_t"
INIT Init
NEXT Next
VIEW View
CONSTRAINT Bounded
ACTION_CONSTRAINT Emit
CHECK_DEADLOCK FALSE
INVARIANTS WellFormedInv
PROPERTIES C18Prop
