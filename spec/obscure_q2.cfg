CONSTANTS
  Atoms <- obscure_q2_Atoms
  KVs = {1}
  NReg = 1
  Keys = {"k1"}
  MaxSize = 12
  MaxT = 2
  Phases <- obscure_q2_Phases
  ShapeSet <- obscure_q2_Shapes
  Signers = {"s1", "s2"}
  Recipients = {"r1", "r2"}
  Policies <- obscure_q2_Policies
  CfgName = "obscure_q2"
INIT Init
NEXT Next
VIEW View
CONSTRAINT Bounded
ACTION_CONSTRAINT Emit
CHECK_DEADLOCK FALSE
INVARIANTS WellFormedInv DeclaredDigestHonest RevealKeepsDigest
PROPERTIES C02Prop C03Prop C07Prop
