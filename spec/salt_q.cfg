CONSTANTS
  Atoms <- salt_q_Atoms
  KVs = {1}
  NReg = 2
  Keys = {"k1"}
  MaxSize = 30
  MaxT = 1
  Phases <- salt_q_Phases
  ShapeSet <- salt_q_Shapes
  Signers = {"s1", "s2"}
  Recipients = {"r1", "r2"}
  Policies <- salt_q_Policies
  CfgName = "salt_q"
INIT Init
NEXT Next
VIEW View
CONSTRAINT Bounded
ACTION_CONSTRAINT Emit
CHECK_DEADLOCK FALSE
INVARIANTS WellFormedInv
PROPERTIES C17Prop
