CONSTANTS
  Atoms <- obscure_q3_Atoms
  KVs = {1}
  NReg = 1
  Keys = {"k1"}
  MaxSize = 16
  MaxT = 1
  Phases <- obscure_q3_Phases
  ShapeSet <- obscure_q3_Shapes
  Signers = {"s1", "s2"}
  Recipients = {"r1", "r2"}
  Policies <- obscure_q3_Policies
  CfgName = "obscure_q3"
INIT Init
NEXT Next
VIEW View
CONSTRAINT Bounded
ACTION_CONSTRAINT Emit
CHECK_DEADLOCK FALSE
INVARIANTS WellFormedInv DeclaredDigestHonest RevealKeepsDigest
PROPERTIES C02Prop C03Prop C07Prop
