------------------------------ MODULE Queries ------------------------------
(***************************************************************************)
(* Traversal and queries (walk.rs, queries.rs, digest.rs).  The walks are  *)
(* operational (they mirror the recursions of walk.rs with their level     *)
(* counters and parent threading); Positions-based definitions of what a   *)
(* walk must deliver are in Props (C15).                                   *)
(*                                                                         *)
(* A walk is returned as a term the harness flattens without knowing any   *)
(* rule: <<"visit", D, level, edge, parentD, kids>> | <<"seq", kids>> |    *)
(* <<"sorted", {<<Dkey, walk>>}>> (members in ascending order of the real  *)
(* bytes of Dkey).                                                         *)
(***************************************************************************)
EXTENDS EnvelopeOps

NoParent == <<"noparent">>

(* what tree_format prints for an element (tree_format.rs: summary) *)
KindWord(e) ==
  CASE e[1] = "node" -> <<"word", "NODE">>   [] e[1] = "wrap" -> <<"word", "WRAPPED">>
    [] e[1] = "assn" -> <<"word", "ASSERTION">> [] e[1] = "elided" -> <<"word", "ELIDED">>
    [] e[1] = "enc" -> <<"word", "ENCRYPTED">> [] e[1] = "comp" -> <<"word", "COMPRESSED">>
    [] e[1] = "kv" -> <<"kv", e[2]>>          [] e[1] = "leaf" -> <<"leaf", e[2]>>
(* the label tree_format prints for an incoming edge (walk.rs: EdgeType::label) *)
EdgeLabel(edge) == CASE edge \in {"Subject", "Wrapped"} -> "subj" [] edge = "Predicate" -> "pred"
                     [] edge = "Object" -> "obj" [] OTHER -> ""

RECURSIVE WalkStructure(_, _, _, _)
WalkStructure(e, level, edge, parent) ==
  LET me == Dg(e) IN
  <<"visit", me, level, edge, parent,
    CASE e[1] = "node" -> << WalkStructure(e[2], level + 1, "Subject", me),
                            <<"sorted", {<<Dg(a), WalkStructure(a, level + 1, "Assertion", me)>> : a \in e[3]}>> >>
      [] e[1] = "wrap" -> << WalkStructure(e[2], level + 1, "Wrapped", me) >>
      [] e[1] = "assn" -> << WalkStructure(e[2], level + 1, "Predicate", me),
                            WalkStructure(e[3], level + 1, "Object", me) >>
      [] OTHER -> << >>,
    KindWord(e), EdgeLabel(edge) >>

(* _walk_tree returns the parent value its caller hands on to the assertions *)
RECURSIVE WalkTree(_, _, _), TreeParentOut(_, _)
TreeParentOut(e, parent) == IF IsNode(e) THEN parent ELSE Dg(e)
WalkTree(e, level, parent) ==
  IF IsNode(e)
  THEN <<"seq", << WalkTree(e[2], level, parent),
                   <<"sorted", {<<Dg(a), WalkTree(a, level + 1, TreeParentOut(e[2], parent))>> : a \in e[3]}>> >> >>
  ELSE <<"visit", Dg(e), level, "None", parent,
         CASE e[1] = "wrap" -> << WalkTree(e[2], level + 1, Dg(e)) >>
           [] e[1] = "assn" -> << WalkTree(e[2], level + 1, Dg(e)), WalkTree(e[3], level + 1, Dg(e)) >>
           [] OTHER -> << >>,
         KindWord(e), "" >>

(* ---- envelope notation (format.rs: EnvelopeFormat for Envelope / Assertion) --------------------
   What format() / format_flat() show, as a term: <<"leaf", atom>> | <<"kv", n>> | <<"word", w>> |
   <<"braces", item>> (a wrapped envelope) | <<"pair", pred, obj>> | <<"node", subject, braces?,
   type assertions, other assertions, nCompressed, nElided, nEncrypted>>.
   In a node only the clear assertions are written out: the 'isA' assertions first, then the others
   (each group ordered by its text - the members are given here as sets tagged with their digests, a
   renderer that knows no envelope rule lays them out), then one counter per kind of obscured
   assertion in the order COMPRESSED, ELIDED, ENCRYPTED.  The subject is put in braces iff it is an
   assertion (looking through node subjects). *)
ObscuredCase(a) == a[1] \in {"elided", "enc", "comp"}
RECURSIVE SubjectIsAssertion(_)
SubjectIsAssertion(e) == CASE e[1] = "assn" -> TRUE [] e[1] = "node" -> SubjectIsAssertion(e[2]) [] OTHER -> FALSE
IsTypeAssertionItem(a) == a[1] = "assn" /\ Subject(a[2]) = KV(1)
RECURSIVE Notation(_)
Notation(e) ==
  CASE e[1] = "leaf"   -> <<"leaf", e[2]>>
    [] e[1] = "kv"     -> <<"kv", e[2]>>
    [] e[1] = "wrap"   -> <<"braces", Notation(e[2])>>
    [] e[1] = "assn"   -> <<"pair", Notation(e[2]), Notation(e[3])>>
    [] e[1] = "elided" -> <<"word", "ELIDED">>
    [] e[1] = "enc"    -> <<"word", "ENCRYPTED">>
    [] e[1] = "comp"   -> <<"word", "COMPRESSED">>
    [] e[1] = "node"   ->
         LET clear == {a \in e[3] : ~ObscuredCase(a)} IN
         <<"node", Notation(e[2]), SubjectIsAssertion(e[2]),
           {<<Dg(a), Notation(a)>> : a \in {x \in clear : IsTypeAssertionItem(x)}},
           {<<Dg(a), Notation(a)>> : a \in {x \in clear : ~IsTypeAssertionItem(x)}},
           Cardinality({a \in e[3] : a[1] = "comp"}),
           Cardinality({a \in e[3] : a[1] = "elided"}),
           Cardinality({a \in e[3] : a[1] = "enc"}) >>

(* tree_format_with_target: the lines of the elements whose digest is in the target set carry a
   star; only visited elements have a line (tree mode skips nodes) *)
RECURSIVE WalkDigests(_), WalkDigestsSeq(_)
WalkDigestsSeq(q) == IF q = << >> THEN {} ELSE WalkDigests(Head(q)) \cup WalkDigestsSeq(Tail(q))
WalkDigests(w) ==
  CASE w[1] = "visit"  -> {w[2]} \cup WalkDigestsSeq(w[6])
    [] w[1] = "seq"    -> WalkDigestsSeq(w[2])
    [] w[1] = "sorted" -> UNION {WalkDigests(x[2]) : x \in w[2]}
Highlighted(w, T) == IF T = {} THEN w ELSE <<"hl", w, <<"set", T \cap WalkDigests(w)>> >>

(* elements_count: 1 + children, nothing below obscured elements (= Size) *)
ElementsCount(e) == Size(e)

(* digests(k): for every element the structure walk visits at level < k, its
   digest and its subject's digest *)
RECURSIVE LevelElems(_, _)
LevelElems(e, level) ==
  {<<e, level>>} \cup
  CASE e[1] = "node" -> LevelElems(e[2], level + 1) \cup UNION {LevelElems(a, level + 1) : a \in e[3]}
    [] e[1] = "assn" -> LevelElems(e[2], level + 1) \cup LevelElems(e[3], level + 1)
    [] e[1] = "wrap" -> LevelElems(e[2], level + 1)
    [] OTHER -> {}
DigestsUpTo(e, k) == UNION {{Dg(x[1]), Dg(Subject(x[1]))} : x \in {y \in LevelElems(e, 0) : y[2] < k}}

(* ---- predicate lookups (queries.rs) ------------------------------------*)
(* assertions whose subject is an assertion with the predicate's digest *)
AssertionsWithPredicate(e, p) ==
  {a \in Assertions(e) : IsAssn(Subject(a)) /\ Dg(Subject(a)[2]) = Dg(p)}
AssertionWithPredicate(e, p) ==
  LET A == AssertionsWithPredicate(e, p) IN
  IF A = {} THEN Err("NonexistentPredicate")
  ELSE IF Cardinality(A) = 1 THEN Ok(CHOOSE a \in A : TRUE)
  ELSE Err("AmbiguousPredicate")
(* object_for_predicate: the object of the matching assertion, also when the
   assertion carries assertions of its own (lib.rs documents that the assertion
   accessors look at the subject) *)
ObjectForPredicate(e, p) ==
  LET r == AssertionWithPredicate(e, p) IN
  IF IsOk(r) THEN Ok(Subject(Val(r))[3]) ELSE r
ObjectsForPredicate(e, p) == {Subject(a)[3] : a \in AssertionsWithPredicate(e, p)}
OptionalObjectForPredicate(e, p) ==
  LET A == AssertionsWithPredicate(e, p) IN
  IF A = {} THEN Ok(<<"nothing">>)
  ELSE IF Cardinality(A) = 1 THEN Ok(Subject(CHOOSE a \in A : TRUE)[3])
  ELSE Err("AmbiguousPredicate")

(* ---- typed extraction ----------------------------------------------------*)
(* extract_subject::<T>: which T answers for which case; for a leaf the value
   conversion belongs to dCBOR, and the contract is "the stored value or an error" *)
RECURSIVE ExtractSubject(_, _)
ExtractSubject(e, ty) ==
  CASE e[1] = "node"   -> ExtractSubject(e[2], ty)
    [] e[1] = "leaf"   -> <<"leaf", e[2]>>
    [] e[1] = "wrap"   -> IF ty = "Envelope" THEN Ok(Dg(e[2])) ELSE Err("InvalidFormat")
    [] e[1] = "assn"   -> IF ty = "Assertion" THEN Ok(Dg(e)) ELSE Err("InvalidFormat")
    [] e[1] = "elided" -> IF ty = "Digest" THEN Ok(e[2]) ELSE Err("InvalidFormat")
    [] e[1] = "kv"     -> IF ty = "KnownValue" THEN Ok(e[2]) ELSE Err("InvalidFormat")
    [] e[1] = "enc"    -> IF ty = "EncryptedMessage" THEN Ok(e[2]) ELSE Err("InvalidFormat")
    [] e[1] = "comp"   -> IF ty = "Compressed" THEN Ok(e[2]) ELSE Err("InvalidFormat")
ExtractTypes == {"String", "u64", "i64", "bool", "f64", "ByteString", "Envelope", "Assertion", "Digest",
                 "KnownValue", "EncryptedMessage", "Compressed"}

(* ---- comparison (digest.rs) -------------------------------------------------*)
Equivalent(x, y) == Dg(x) = Dg(y)
Identical(x, y)  == Equivalent(x, y) /\ Pattern(x) = Pattern(y)
(* structural_digest (9 = no discriminator byte): SHA-256 over, in structure-walk order, a discriminator byte
   for each obscured element followed by the digest of every element *)
RECURSIVE StructImage(_)
StructImage(e) ==
  <<"img", CASE e[1] = "elided" -> 1 [] e[1] = "enc" -> 0 [] e[1] = "comp" -> 2 [] OTHER -> 9, Dg(e),
    CASE e[1] = "node" -> << StructImage(e[2]), <<"sorted", {<<Dg(a), StructImage(a)>> : a \in e[3]}>> >>
      [] e[1] = "wrap" -> << StructImage(e[2]) >>
      [] e[1] = "assn" -> << StructImage(e[2]), StructImage(e[3]) >>
      [] OTHER -> << >> >>

(* ---- basic predicates -----------------------------------------------------------*)
RECURSIVE IsSubjCase(_, _)
IsSubjCase(e, c) == IF IsNode(e) THEN IsSubjCase(e[2], c) ELSE e[1] = c
StructureFacts(e) ==
  [ is_leaf |-> IsLeaf(e), is_node |-> IsNode(e), is_wrapped |-> IsWrap(e), is_known_value |-> IsKV(e),
    is_assertion |-> IsAssn(e), is_encrypted |-> IsEnc(e), is_compressed |-> IsComp(e), is_elided |-> IsElided(e),
    is_subject_assertion |-> IsSubjAssn(e), is_subject_encrypted |-> IsSubjCase(e, "enc"),
    is_subject_compressed |-> IsSubjCase(e, "comp"), is_subject_elided |-> IsSubjCase(e, "elided"),
    is_subject_obscured |-> IsSubjObscured(e), is_obscured |-> IsObscured(e),
    is_internal |-> e[1] \in {"node", "wrap", "assn"},
    has_assertions |-> IsNode(e), n_assertions |-> Cardinality(Assertions(e)),
    elements_count |-> ElementsCount(e), digest |-> Dg(e), subject_digest |-> Dg(Subject(e)) ]
=============================================================================
