CONSTANTS
  Atoms <- attach_q_Atoms
  KVs = {1}
  NReg = 2
  Keys = {"k1"}
  MaxSize = 30
  MaxT = 1
  Phases <- attach_q_Phases
  ShapeSet <- attach_q_Shapes
  Signers = {"s1", "s2"}
  Recipients = {"r1", "r2"}
  Policies <- attach_q_Policies
  CfgName = "attach_q"
INIT Init
NEXT Next
VIEW View
CONSTRAINT Bounded
ACTION_CONSTRAINT Emit
CHECK_DEADLOCK FALSE
INVARIANTS WellFormedInv
PROPERTIES C19Prop
