CONSTANTS
  Atoms <- forge_q_Atoms
  KVs = {1}
  NReg = 2
  Keys = {"k1"}
  MaxSize = 9
  MaxT = 1
  Phases <- forge_q_Phases
  ShapeSet <- forge_q_Shapes
  Signers = {"s1", "s2"}
  Recipients = {"r1", "r2"}
  Policies <- forge_q_Policies
  CfgName = "forge_q"
INIT Init
NEXT Next
VIEW View
CONSTRAINT Bounded
ACTION_CONSTRAINT Emit
CHECK_DEADLOCK FALSE
INVARIANTS WellFormedInv
PROPERTIES C08Prop C13Prop C07Prop
