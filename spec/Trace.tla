------------------------------- MODULE Trace -------------------------------
(***************************************************************************)
(* Direction B: validation of executions recorded from the real library    *)
(* (harness/src/bin/tracegen.rs) against the specification.  Every event   *)
(* carries the call, its arguments and the full projection of the real     *)
(* result, each element annotated with an integer naming its real digest.  *)
(* A step of this specification consumes one event and is enabled only if  *)
(*   - the specification's operator, applied to the registers as they are  *)
(*     (i.e. to what the library returned earlier), gives that outcome and *)
(*     that result (fresh nonces / salts aside);                           *)
(*   - the real digests behave like an injective function of the           *)
(*     specification's digest terms (DmapFunctional / DmapInjective);      *)
(*   - the result is well-formed; salt lengths obey SaltLenOK.             *)
(* The trace is accepted iff every event is consumed.                      *)
(***************************************************************************)
EXTENDS Extensions, Json, IOUtils

Rec == ndJsonDeserialize(IOEnv.TRACE)

VARIABLES l, reg, dmap, idmap
tvars == <<l, reg, dmap, idmap>>

Empty == [x \in {} |-> 0]
Has(f, x) == x \in DOMAIN f

(* ---- from the logged projection to specification values -------------------*)
RootId(v) == IF v[1] = "elided" THEN v[2] ELSE IF v[1] \in {"enc", "comp"} THEN v[2] ELSE v[Len(v)]
IdTerm(id) == IF Has(idmap, id) THEN idmap[id] ELSE X(id)
RECURSIVE Plain(_)
Plain(v) ==
  CASE v[1] = "leaf"   -> Leaf(<<v[2][1], v[2][2]>>)
    [] v[1] = "kv"     -> KV(v[2])
    [] v[1] = "assn"   -> Assn(Plain(v[2]), Plain(v[3]))
    [] v[1] = "wrap"   -> Wrap(Plain(v[2]))
    [] v[1] = "node"   -> Node(Plain(v[2]), {Plain(v[3][i]) : i \in 1..Len(v[3])})
    [] v[1] = "elided" -> Elided(IdTerm(v[2]))
    [] v[1] = "enc"    -> IF v[6] = "ok"
                          THEN Enc(IF RootId(v[5]) = v[2] THEN Dg(Plain(v[5])) ELSE IdTerm(v[2]),
                                   v[3], <<v[4], << >> >>, Plain(v[5]), "ok")
                          ELSE Enc(IdTerm(v[2]), v[3], <<v[4], << >> >>, Elided(IdTerm(v[2])), "bad")
    [] v[1] = "comp"   -> IF v[4] = "ok"
                          THEN Comp(IF RootId(v[3]) = v[2] THEN Dg(Plain(v[3])) ELSE IdTerm(v[2]), Plain(v[3]), "ok")
                          ELSE Comp(IdTerm(v[2]), Elided(IdTerm(v[2])), "bad")
(* <<digest term, real digest id>> of every element of a logged projection *)
RECURSIVE Pairs(_)
Pairs(v) ==
  {<<Dg(Plain(v)), RootId(v)>>} \cup
  CASE v[1] = "assn" -> Pairs(v[2]) \cup Pairs(v[3])
    [] v[1] = "wrap" -> Pairs(v[2])
    [] v[1] = "node" -> Pairs(v[2]) \cup UNION {Pairs(v[3][i]) : i \in 1..Len(v[3])}
    [] v[1] = "enc"  -> IF v[6] = "ok" THEN Pairs(v[5]) ELSE {}
    [] v[1] = "comp" -> IF v[4] = "ok" THEN Pairs(v[3]) ELSE {}
    [] OTHER -> {}

(* fresh values the specification cannot predict: nonces and salts are compared by kind only *)
RECURSIVE Norm(_)
Norm(e) ==
  CASE e[1] = "leaf" -> IF e[2][1] \in {"salt", "saltv"} THEN Leaf(<<"salt">>) ELSE e
    [] e[1] = "assn" -> Assn(Norm(e[2]), Norm(e[3]))
    [] e[1] = "wrap" -> Wrap(Norm(e[2]))
    [] e[1] = "node" -> Node(Norm(e[2]), {Norm(a) : a \in e[3]})
    [] e[1] = "enc"  -> Enc(<<"d">>, e[3], 0, Norm(e[5]), e[6])
    [] e[1] = "comp" -> Comp(<<"d">>, Norm(e[3]), e[4])
    [] e[1] = "elided" -> IF e[2][1] = "H" THEN Elided(<<"d">>) ELSE e
    [] OTHER -> e
(* digests of elements that contain fresh values are compared through the digest map instead *)

PathOf(p) == [i \in 1..Len(p) |-> IF p[i][1] = "a" THEN <<"a", IdTerm(p[i][2])>> ELSE <<p[i][1]>>]

(* ---- the documented salt length range (salt.rs / Salt::new_for_size) ---------------*)
CeilDiv(a, b) == (a + b - 1) \div b
Max(a, b) == IF a > b THEN a ELSE b
SaltLo(n) == Max(8, CeilDiv(5 * n, 100))
SaltHi(n) == Max(SaltLo(n) + 8, CeilDiv(25 * n, 100))
(* the implementation computes the bounds in floating point: allow one byte of slack upwards *)
SaltLenOK(n, len) == len >= SaltLo(n) /\ len <= SaltHi(n) + 2

(* ---- what the specification says the call returns ---------------------------------------*)
SpecResult(ev) ==
  LET a == ev.args IN
  CASE ev.op = "new"                    -> Ok(Plain(ev.res))
    [] ev.op = "new_assertion"          -> Ok(Assn(reg[a[1]], reg[a[2]]))
    [] ev.op = "add_assertion_envelope" -> AddAssertionEnv(reg[a[1]], reg[a[2]])
    [] ev.op = "remove_assertion"       -> Ok(RemoveAssertion(reg[a[1]], reg[a[2]]))
    [] ev.op = "remove_present"         -> Ok(RemoveAssertion(reg[a[1]], Elided(IdTerm(a[2]))))
    [] ev.op = "replace_present"        -> ReplaceAssertion(reg[a[1]], Elided(IdTerm(a[2])), reg[a[3]])
    [] ev.op = "replace_subject"        -> Ok(ReplaceSubject(reg[a[1]], reg[a[2]]))
    [] ev.op = "wrap"                   -> Ok(WrapEnvelope(reg[a[1]]))
    [] ev.op = "unwrap"                 -> UnwrapEnvelope(reg[a[1]])
    [] ev.op = "subject"                -> Ok(Subject(reg[a[1]]))
    [] ev.op = "assertion_pick"         -> LET hit == {x \in Assertions(reg[a[1]]) : Dg(x) = IdTerm(a[2])} IN
                                           IF hit = {} THEN Err("absent") ELSE Ok(CHOOSE x \in hit : TRUE)
    [] ev.op = "elide"                  -> Ok(ElideOne(reg[a[1]]))
    [] ev.op = "elide_set"              ->
         LET e == reg[a[1]]
             T == {Dg(At(e, PathOf(a[2][i]))) : i \in 1..Len(a[2])}
             act == IF a[4] = "encrypt" THEN <<"encrypt", a[5], 0>> ELSE <<a[4]>> IN
         Ok(ObscureSet(e, T, a[3], act, << >>))
    [] ev.op = "compress"               -> CompressOne(reg[a[1]])
    [] ev.op = "uncompress"             -> Uncompress(reg[a[1]])
    [] ev.op = "compress_subject"       -> CompressSubject(reg[a[1]])
    [] ev.op = "uncompress_subject"     -> UncompressSubject(reg[a[1]])
    [] ev.op = "encrypt_subject"        -> EncryptSubject(reg[a[1]], a[2], <<0, << >> >>)
    [] ev.op = "decrypt_subject"        -> DecryptSubject(reg[a[1]], a[2])
    [] ev.op = "encode_decode"          -> Ok(reg[a[1]])
    [] ev.op = "add_salt"               -> Ok(AddSaltInstance(reg[a[1]], <<0, 0>>))

Consistent(P) ==
  /\ \A x \in P : /\ Has(dmap, x[1]) => dmap[x[1]] = x[2]          \* DmapFunctional: one structure, one real digest
                  /\ Has(idmap, x[2]) => idmap[x[2]] = x[1]        \* DmapInjective: one real digest, one structure
  /\ \A x \in P, y \in P : (x[1] = y[1]) <=> (x[2] = y[2])

Extend(f, S, k, v) == [z \in DOMAIN f \cup {s[k] : s \in S} |->
                         IF Has(f, z) THEN f[z] ELSE (CHOOSE s \in S : s[k] = z)[v]]

TraceInit == l = 1 /\ reg = << >> /\ dmap = Empty /\ idmap = Empty

Reset(ev) == /\ reg' = [r \in 1..ev.extra.nreg |-> NoEnv]
             /\ dmap' = Empty /\ idmap' = Empty
Drop(ev)  == /\ reg' = [reg EXCEPT ![ev.dst] = NoEnv]
             /\ UNCHANGED <<dmap, idmap>>
Call(ev)  ==
  LET r == SpecResult(ev) IN
  IF ev.out = "ok"
  THEN LET got == Plain(ev.res)  P == Pairs(ev.res) IN
       /\ IsOk(r)
       /\ Norm(Val(r)) = Norm(got)
       /\ Dg(Val(r)) = Dg(got) \/ ev.op \in {"add_salt", "encrypt_subject", "elide_set"}
       /\ WellFormed(got)
       /\ Consistent(P)
       /\ ev.extra.sorted        \* stored assertion order strictly ascending at every node (C04)
       /\ ev.extra.reencode      \* decodes back from its own bytes to an identical envelope (C05)
       /\ ev.op = "add_salt" => SaltLenOK(ev.extra.size, ev.extra.len)
       /\ reg' = [reg EXCEPT ![ev.dst] = got]
       /\ dmap' = Extend(dmap, P, 1, 2)
       /\ idmap' = Extend(idmap, P, 2, 1)
  ELSE /\ ~IsOk(r)
       /\ UNCHANGED <<reg, dmap, idmap>>

(* C06 on raw bytes (valid encodings mutated at the byte level, random bytes): the decoder either
   fails or returns an envelope that re-encodes to exactly the input, the #6.24 alias aside; it
   never panics (a recorded panic has no step here). *)
DecodeBytes(ev) ==
  /\ \/ ev.out = "err"
     \/ ev.out = "ok" /\ (ev.extra.reencode_equal \/ ev.extra.alias_equal)
  /\ UNCHANGED <<reg, dmap, idmap>>

TraceNext ==
  /\ l <= Len(Rec)
  /\ l' = l + 1
  /\ LET ev == Rec[l] IN
     CASE ev.op = "reset" -> Reset(ev)
       [] ev.op = "decode_bytes" -> DecodeBytes(ev)
       [] ev.op = "drop"  -> Drop(ev)
       [] OTHER           -> Call(ev)

TraceSpec == TraceInit /\ [][TraceNext]_tvars

(* accepted iff every event was consumed; otherwise name the first event that was not *)
TraceAccepted ==
  LET d == TLCGet("stats").diameter IN
  IF d - 1 = Len(Rec) THEN TRUE
  ELSE /\ PrintT(<<"TRACE-REJECTED", "event", d, "of", Len(Rec), Rec[d].op, ToJson(Rec[d])>>)
       /\ FALSE
=============================================================================
