------------------------------- MODULE Locks -------------------------------
(***************************************************************************)
(* C20: the global registries and the format context under concurrent use. *)
(* Threads run calls; a call is a flat lock program extracted from the     *)
(* hooks of the current build (tools/lockcheck.py writes LocksPrograms):   *)
(*   <<"oe", c, n>>  enter Once cell c: done -> skip the n instructions of *)
(*                   the initialiser and its "od"; new -> run it; being    *)
(*                   run by another thread -> wait                         *)
(*   <<"od", c>>     the initialiser of c is complete                      *)
(*   <<"aq", l>>     lock mutex l (std::sync::Mutex: not re-entrant)       *)
(*   <<"rl", l>>     unlock l                                              *)
(*   <<"bl", l>>     lock and unlock l within one library call             *)
(* TLC explores every interleaving of every choice of calls.               *)
(***************************************************************************)
EXTENDS Naturals, Sequences, FiniteSets, TLC

CONSTANTS Threads,     \* e.g. {1, 2, 3}
          MaxCalls,    \* calls per thread
          Kinds,       \* call kinds a thread may choose from
          Prog         \* Prog[k] = the instruction sequence of call kind k

VARIABLES pc, cur, left, owner, once, runs
lvars == <<pc, cur, left, owner, once, runs>>

Idle == "idle"
LocksOf == {"FC", "KV", "FN", "PARAM", "TAGS"}
Cells  == {"FC", "KV", "FN", "PARAM"}

LInit == /\ pc = [t \in Threads |-> 1]
         /\ cur = [t \in Threads |-> Idle]
         /\ left = [t \in Threads |-> MaxCalls]
         /\ owner = [l \in LocksOf |-> 0]
         /\ once = [c \in Cells |-> <<"new">>]
         /\ runs = [c \in Cells |-> 0]

Begin(t) == /\ cur[t] = Idle /\ left[t] > 0
            /\ \E k \in Kinds : cur' = [cur EXCEPT ![t] = k]
            /\ pc' = [pc EXCEPT ![t] = 1]
            /\ left' = [left EXCEPT ![t] = @ - 1]
            /\ UNCHANGED <<owner, once, runs>>

Finish(t) == /\ cur[t] # Idle /\ pc[t] > Len(Prog[cur[t]])
             /\ cur' = [cur EXCEPT ![t] = Idle]
             /\ UNCHANGED <<pc, left, owner, once, runs>>

Instr(t) == Prog[cur[t]][pc[t]]
Adv(t, n) == pc' = [pc EXCEPT ![t] = @ + n]

Exec(t) ==
  /\ cur[t] # Idle /\ pc[t] <= Len(Prog[cur[t]])
  /\ LET i == Instr(t) IN
     CASE i[1] = "oe" ->
            \/ /\ once[i[2]] = <<"done">>
               /\ Adv(t, i[3] + 2) /\ UNCHANGED <<owner, once, runs>>
            \/ /\ once[i[2]] = <<"new">>
               /\ once' = [once EXCEPT ![i[2]] = <<"running", t>>]
               /\ runs' = [runs EXCEPT ![i[2]] = @ + 1]
               /\ Adv(t, 1) /\ UNCHANGED owner
            \* being initialised by another thread: wait; by this thread (re-entrant call_once): stuck for ever
       [] i[1] = "od" -> /\ once[i[2]] = <<"running", t>>
                         /\ once' = [once EXCEPT ![i[2]] = <<"done">>]
                         /\ Adv(t, 1) /\ UNCHANGED <<owner, runs>>
       [] i[1] = "aq" -> /\ owner[i[2]] = 0
                         /\ owner' = [owner EXCEPT ![i[2]] = t]
                         /\ Adv(t, 1) /\ UNCHANGED <<once, runs>>
       [] i[1] = "rl" -> /\ owner[i[2]] = t
                         /\ owner' = [owner EXCEPT ![i[2]] = 0]
                         /\ Adv(t, 1) /\ UNCHANGED <<once, runs>>
       [] i[1] = "bl" -> /\ owner[i[2]] = 0
                         /\ Adv(t, 1) /\ UNCHANGED <<owner, once, runs>>
  /\ UNCHANGED <<cur, left>>

AllDone == \A t \in Threads : cur[t] = Idle /\ left[t] = 0
LNext == (\E t \in Threads : Begin(t) \/ Finish(t) \/ Exec(t)) \/ (AllDone /\ UNCHANGED lvars)
LSpec == LInit /\ [][LNext]_lvars /\ \A t \in Threads : WF_lvars(Begin(t) \/ Finish(t) \/ Exec(t))

(* every state in which some thread is not finished has an enabled step: checked by TLC's deadlock
   detection (CHECK_DEADLOCK TRUE; the only stuttering step is AllDone) *)
NoLockHeldWhenIdle == \A t \in Threads : cur[t] = Idle => \A l \in LocksOf : owner[l] # t
OnceAtMostOnce == \A c \in Cells : runs[c] <= 1
(* a thread past a Once gate sees the cell initialised *)
InitBeforeUse ==
  \A t \in Threads : (cur[t] # Idle /\ pc[t] <= Len(Prog[cur[t]]) /\ Instr(t)[1] = "aq" /\ Instr(t)[2] \in Cells
                      /\ (pc[t] > 1 /\ Prog[cur[t]][pc[t] - 1][1] \in {"oe", "od"}))
                     => (once[Instr(t)[2]] = <<"done">> \/ once[Instr(t)[2]] = <<"running", t>>)
Termination == <>[]AllDone
=============================================================================
