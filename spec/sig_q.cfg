CONSTANTS
  Atoms <- sig_q_Atoms
  KVs = {1}
  NReg = 1
  Keys = {"k1"}
  MaxSize = 30
  MaxT = 1
  Phases <- sig_q_Phases
  ShapeSet <- sig_q_Shapes
  Signers = {"s1", "s2"}
  Recipients = {"r1", "r2"}
  Policies <- sig_q_Policies
  CfgName = "sig_q"
INIT Init
NEXT Next
VIEW View
CONSTRAINT Bounded
ACTION_CONSTRAINT Emit
CHECK_DEADLOCK FALSE
INVARIANTS WellFormedInv
PROPERTIES C09Prop
