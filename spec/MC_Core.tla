------------------------------ MODULE MC_Core ------------------------------
EXTENDS Machine, Shapes

Step ==
  \/ Fam("construct", Construct)
  \/ Fam("build", Build)
  \/ Fam("assertions", AssertionsFam)
  \/ Fam("navigate", Navigate)
  \/ Fam("wrap", WrapFam)
  \/ Fam("elide", ElideA \/ ElideSetA \/ UnelideA)
  \/ Fam("compress", CompressA \/ UncompressA \/ CompressSubjectA \/ UncompressSubjectA)
  \/ Fam("encrypt", EncryptSubjectA \/ DecryptSubjectA \/ EncryptA \/ DecryptA)
  \/ Fam("codec", EncodeDecodeA)

Next == Len(hist) < MaxDepth /\ Step

A2 == {V("a1"), V("a2")}
A3 == {V("a1"), V("a2"), V("a3")}
B3 == {Leaf(V("a1")), Leaf(V("a2")), KV(1)}
B2 == {Leaf(V("a1")), KV(1)}
Sh3_4 == ShUpTo(B3, 4)
Sh3_5 == ShUpTo(B3, 5)
Sh3_6 == ShUpTo(B3, 6)
Sh3_7 == ShUpTo(B3, 7)
Sh2_7 == ShUpTo(B2, 7)
NoShapes == {}
Spec == Init /\ [][Next]_vars

WellFormedInv == \A r \in Full : WellFormed(reg[r])
=============================================================================
