------------------------------- MODULE Wire -------------------------------
(***************************************************************************)
(* Wire terms: a symbolic CBOR grammar, the encoder (cbor.rs:47-69), and   *)
(* the decoder of draft section 3 (+ the tolerated #6.24 alias, + the      *)
(* encrypted / compressed extension cases).                                *)
(*                                                                         *)
(*  W ::= <<"tag", n, W>>          CBOR tag n                              *)
(*      | <<"payload", atom>>      the dCBOR of a leaf value               *)
(*      | <<"uint", n>>            unsigned integer (a known value)        *)
(*      | <<"map1", Wk, Wv>>       a map with exactly one entry            *)
(*      | <<"mapn", {<<Wk,Wv>>}>>  a map with 0 or >= 2 entries, in canonical order *)
(*      | <<"bytes", D, delta>>    byte string: the 32 bytes of D, with    *)
(*                                 delta bytes appended (+) / dropped (-)  *)
(*      | <<"nodearr", Wsubj, {<<D, W>>}, perm>>                           *)
(*                                 array: subject, then the items in       *)
(*                                 ascending order of the REAL bytes of    *)
(*                                 their key D, then permuted by perm      *)
(*                                 ("id" | <<"swap", i, j>> | <<"dup", i>> *)
(*                                 | <<"drop", i>> ...)                     *)
(*      | <<"arr", Seq(W)>>        a plain array                           *)
(*      | <<"encmsg", D, key, nonce, Wplain, auth, extra>>                 *)
(*                                 the array of an EncryptedMessage        *)
(*      | <<"compmsg", D, Wplain, state, extra>>  the array of a Compressed*)
(*      | <<"quirk", q, W>>        a named non-deterministic encoding of W *)
(*      | <<"other", what>>        a CBOR item outside the grammar         *)
(***************************************************************************)
EXTENDS EnvelopeOps


RECURSIVE Untagged(_)
Untagged(e) ==
  CASE e[1] = "leaf"   -> <<"tag", TagLeaf, IF e[2][1] = "cborof" THEN e[2][2] ELSE <<"payload", e[2]>>>>
    [] e[1] = "kv"     -> <<"uint", e[2]>>
    [] e[1] = "assn"   -> <<"map1", Untagged(e[2]), Untagged(e[3])>>
    [] e[1] = "node"   -> <<"nodearr", Untagged(e[2]), {<<Dg(a), Untagged(a)>> : a \in e[3]}, <<"id">>>>
    [] e[1] = "wrap"   -> <<"tag", TagEnvelope, Untagged(e[2])>>
    [] e[1] = "elided" -> <<"bytes", e[2], 0>>
    [] e[1] = "enc"    -> <<"tag", TagEncrypted,
                            <<"encmsg", e[2], e[3], e[4], <<"tag", TagEnvelope, Untagged(e[5])>>, e[6], 0>>>>
    [] e[1] = "comp"   -> <<"tag", TagCompressed,
                            <<"compmsg", e[2], <<"tag", TagEnvelope, Untagged(e[3])>>, e[4], 0>>>>
Tagged(e) == <<"tag", TagEnvelope, Untagged(e)>>

(***************************************************************************)
(* The decoder, as the draft specifies it (section 3, and 7.2 for the      *)
(* order of assertions): total on wire terms, Err outside the grammar.     *)
(***************************************************************************)
NoDigest  == <<"nodigest">>     \* the digest element is absent
BadDigest == <<"baddigest">>    \* an element is present in the digest's place but is not a digest
RECURSIVE HasQuirk(_)
HasQuirk(w) ==
  CASE w[1] = "quirk" -> TRUE
    [] w[1] = "tag"   -> HasQuirk(w[3])
    [] w[1] = "map1"  -> HasQuirk(w[2]) \/ HasQuirk(w[3])
    [] w[1] = "nodearr" -> HasQuirk(w[2]) \/ \E x \in w[3] : HasQuirk(x[2])
    [] w[1] = "mapn"  -> \E x \in w[2] : HasQuirk(x[1]) \/ HasQuirk(x[2])
    [] w[1] = "arr"   -> \E i \in 1..Len(w[2]) : HasQuirk(w[2][i])
    [] OTHER -> FALSE
RECURSIVE DecodeU(_), DecodeItems(_)
\* decode every <<key, item>> of a node array; Err if one fails
DecodeItems(S) ==
  IF S = {} THEN Ok({})
  ELSE LET x == CHOOSE x \in S : TRUE
           r == DecodeU(x[2])
           rest == DecodeItems(S \ {x}) IN
       IF ~IsOk(r) THEN r ELSE IF ~IsOk(rest) THEN rest ELSE Ok({Val(r)} \cup Val(rest))
DecodeU(w) ==
  CASE w[1] = "tag" ->
         (CASE w[2] \in {TagLeaf, TagLeafLegacy} ->
                 (CASE w[3][1] = "payload" -> Ok(Leaf(w[3][2]))
                    [] HasQuirk(w[3]) -> Err("not deterministic CBOR")
                    [] OTHER -> Ok(Leaf(<<"cborof", w[3]>>)))    \* any well-formed CBOR item is a leaf value
            [] w[2] = TagEnvelope ->
                 LET r == DecodeU(w[3]) IN IF IsOk(r) THEN Ok(Wrap(Val(r))) ELSE r
            [] w[2] = TagEncrypted ->
                 IF w[3][1] # "encmsg" THEN Err("invalid encrypted message")
                 ELSE IF w[3][2] \in {NoDigest, BadDigest} THEN Err("MissingDigest")
                 ELSE IF w[3][7] # 0 THEN Err("extra elements")
                 ELSE LET p == DecodeU(w[3][5][3]) IN
                      IF IsOk(p) THEN Ok(Enc(w[3][2], w[3][3], w[3][4], Val(p), w[3][6])) ELSE p
            [] w[2] = TagCompressed ->
                 IF w[3][1] # "compmsg" THEN Err("invalid compressed")
                 ELSE IF w[3][2] \in {NoDigest, BadDigest} THEN Err("MissingDigest")
                 ELSE IF w[3][5] # 0 THEN Err("extra elements")
                 ELSE LET p == DecodeU(w[3][3][3]) IN
                      IF IsOk(p) THEN Ok(Comp(w[3][2], Val(p), w[3][4])) ELSE p
            [] OTHER -> Err("unknown tag"))
    [] w[1] = "uint"  -> Ok(KV(w[2]))
    [] w[1] = "bytes" -> IF w[3] = 0 THEN Ok(Elided(w[2])) ELSE Err("digest length")
    [] w[1] = "map1"  -> LET p == DecodeU(w[2])  o == DecodeU(w[3]) IN
                         IF ~IsOk(p) THEN p ELSE IF ~IsOk(o) THEN o ELSE Ok(Assn(Val(p), Val(o)))
    [] w[1] = "mapn"  -> Err("assertion map must have exactly one entry")
    [] w[1] = "nodearr" ->
         LET s == DecodeU(w[2])  items == DecodeItems(w[3]) IN
         IF ~IsOk(s) THEN s
         ELSE IF ~IsOk(items) THEN items
         ELSE IF w[3] = {} THEN Err("node must have at least two elements")
         ELSE IF \E a \in Val(items) : ~AssertionLike(a) THEN Err("InvalidFormat")
         ELSE IF w[4] # <<"id">> THEN Err("assertions not in strictly ascending digest order")
         ELSE IF Cardinality({Dg(a) : a \in Val(items)}) # Cardinality(w[3]) THEN Err("repeated digest")
         ELSE Ok(Node(Val(s), Val(items)))
    [] w[1] = "arr"   -> Err("node must have at least two elements")   \* only generated with < 2 items
    [] OTHER -> Err("invalid envelope")                                \* quirk, other CBOR types
DecodeTagged(w) ==
  IF w[1] = "tag" /\ w[2] = TagEnvelope THEN DecodeU(w[3]) ELSE Err("not an envelope")

(* the tolerated alias: #6.24 read as #6.201 *)
RECURSIVE Alias24(_)
Alias24(w) ==
  CASE w[1] = "tag" -> IF w[2] \in {TagLeaf, TagLeafLegacy} THEN <<"tag", TagLeaf, w[3]>>   \* leaf content is data
                       ELSE <<"tag", w[2], Alias24(w[3])>>
    [] w[1] = "map1" -> <<"map1", Alias24(w[2]), Alias24(w[3])>>
    [] w[1] = "nodearr" -> <<"nodearr", Alias24(w[2]), {<<x[1], Alias24(x[2])>> : x \in w[3]}, w[4]>>
    [] OTHER -> w

(* ---- structural mutations of a wire term (one at one position) --------------*)
Junk == { <<"other", "float">>, <<"other", "text">>, <<"other", "negint">>, <<"other", "bool">> }
Quirks == {"nonminimal", "indefinite"}
\* mutations that replace the item itself
RECURSIVE Mut(_)
MutHere(w) ==
  Junk \cup {<<"quirk", q, w>> : q \in Quirks}
  \cup (CASE w[1] = "tag" ->
             {<<"tag", 299, w[3]>>}
             \cup (IF w[2] = TagLeaf THEN {<<"tag", TagLeafLegacy, w[3]>>} ELSE {})
             \cup (IF w[2] = TagEnvelope THEN {<<"tag", TagLeaf, w[3]>>} ELSE {})
             \cup (IF w[2] = TagEncrypted /\ w[3][1] = "encmsg"
                   THEN {<<"tag", TagEncrypted, <<"encmsg", w[3][2], w[3][3], w[3][4], w[3][5], w[3][6], 1>>>>,
                         <<"tag", TagEncrypted, <<"encmsg", NoDigest, w[3][3], w[3][4], w[3][5], w[3][6], 0>>>>,
                         <<"tag", TagEncrypted, <<"encmsg", BadDigest, w[3][3], w[3][4], w[3][5], w[3][6], 0>>>>}
                   ELSE {})
             \cup (IF w[2] = TagCompressed /\ w[3][1] = "compmsg"
                   THEN {<<"tag", TagCompressed, <<"compmsg", w[3][2], w[3][3], w[3][4], 1>>>>,
                         <<"tag", TagCompressed, <<"compmsg", NoDigest, w[3][3], w[3][4], 0>>>>,
                         <<"tag", TagCompressed, <<"compmsg", BadDigest, w[3][3], w[3][4], 0>>>>}
                   ELSE {})
        [] w[1] = "bytes" -> {<<"bytes", w[2], 1>>, <<"bytes", w[2], 2>>}   \* 1: one byte appended, 2: one byte dropped
        [] w[1] = "map1"  -> {<<"mapn", {}>>, <<"mapn", {<<w[2], w[3]>>, <<<<"uint", 99>>, w[3]>>}>>}   \* 0 / 2 entries, canonical order
        [] w[1] = "nodearr" ->
             LET n == Cardinality(w[3]) IN
             {<<"arr", <<w[2]>>>>, <<"arr", << >> >>}
             \cup {<<"nodearr", w[2], w[3], <<"dup", i>>>> : i \in 1..n}
             \cup {<<"nodearr", w[2], w[3], <<"swap", i, i + 1>>>> : i \in 1..(n - 1)}
             \cup (IF n >= 3 THEN {<<"nodearr", w[2], w[3], <<"rev">>>>} ELSE {})
             \* a non-assertion in an assertion slot (keyed by the digest of what it is)
             \cup {<<"nodearr", w[2], w[3] \cup {<<H(<<"cbor", TKV(7)>>, {}), <<"uint", 7>>>>}, <<"id">>>>}
        [] OTHER -> {})
\* mutations at any position
Mut(w) ==
  MutHere(w) \cup
  (CASE w[1] = "tag" /\ w[3][1] \notin {"payload", "encmsg", "compmsg"} -> {<<"tag", w[2], m>> : m \in Mut(w[3])}
     [] w[1] = "map1" -> {<<"map1", m, w[3]>> : m \in Mut(w[2])} \cup {<<"map1", w[2], m>> : m \in Mut(w[3])}
     [] w[1] = "nodearr" ->
          {<<"nodearr", m, w[3], w[4]>> : m \in Mut(w[2])}
          \* an item mutated in place keeps its position; mutants that stay valid but change the
          \* item's digest are left out, since its position would then no longer be known to be in order
          \cup UNION {{<<"nodearr", w[2], (w[3] \ {x}) \cup {<<x[1], m>>}, w[4]>> :
                         m \in {m2 \in Mut(x[2]) : LET r == DecodeU(m2) IN ~IsOk(r) \/ Dg(Val(r)) = x[1]}} : x \in w[3]}
     [] OTHER -> {})
MutTagged(w) == {<<"tag", TagEnvelope, m>> : m \in Mut(w[3])} \cup {<<"tag", 299, w[3]>>, w[3]}
=============================================================================
