------------------------------- MODULE Wire -------------------------------
(***************************************************************************)
(* Wire terms: a symbolic CBOR grammar, the encoder (cbor.rs:47-69), and   *)
(* the decoder of draft section 3 (+ the tolerated #6.24 alias, + the      *)
(* encrypted / compressed extension cases).                                *)
(*                                                                         *)
(*  W ::= <<"tag", n, W>>          CBOR tag n                              *)
(*      | <<"payload", atom>>      the dCBOR of a leaf value               *)
(*      | <<"uint", n>>            unsigned integer (a known value)        *)
(*      | <<"map1", Wk, Wv>>       a map with exactly one entry            *)
(*      | <<"mapn", Seq(<<Wk,Wv>>)>>  a map with 0 or >= 2 entries         *)
(*      | <<"bytes", D, delta>>    byte string: the 32 bytes of D, with    *)
(*                                 delta bytes appended (+) / dropped (-)  *)
(*      | <<"nodearr", Wsubj, {<<D, W>>}, perm>>                           *)
(*                                 array: subject, then the items in       *)
(*                                 ascending order of the REAL bytes of    *)
(*                                 their key D, then permuted by perm      *)
(*                                 ("id" | <<"swap", i, j>> | <<"dup", i>> *)
(*                                 | <<"drop", i>> ...)                     *)
(*      | <<"arr", Seq(W)>>        a plain array                           *)
(*      | <<"encmsg", D, key, nonce, Wplain, auth, extra>>                 *)
(*                                 the array of an EncryptedMessage        *)
(*      | <<"compmsg", D, Wplain, state, extra>>  the array of a Compressed*)
(*      | <<"quirk", q, W>>        a named non-deterministic encoding of W *)
(*      | <<"other", what>>        a CBOR item outside the grammar         *)
(***************************************************************************)
EXTENDS EnvelopeOps


RECURSIVE Untagged(_)
Untagged(e) ==
  CASE e[1] = "leaf"   -> <<"tag", TagLeaf, <<"payload", e[2]>>>>
    [] e[1] = "kv"     -> <<"uint", e[2]>>
    [] e[1] = "assn"   -> <<"map1", Untagged(e[2]), Untagged(e[3])>>
    [] e[1] = "node"   -> <<"nodearr", Untagged(e[2]), {<<Dg(a), Untagged(a)>> : a \in e[3]}, <<"id">>>>
    [] e[1] = "wrap"   -> <<"tag", TagEnvelope, Untagged(e[2])>>
    [] e[1] = "elided" -> <<"bytes", e[2], 0>>
    [] e[1] = "enc"    -> <<"tag", TagEncrypted,
                            <<"encmsg", e[2], e[3], e[4], <<"tag", TagEnvelope, Untagged(e[5])>>, e[6], 0>>>>
    [] e[1] = "comp"   -> <<"tag", TagCompressed,
                            <<"compmsg", e[2], <<"tag", TagEnvelope, Untagged(e[3])>>, e[4], 0>>>>
Tagged(e) == <<"tag", TagEnvelope, Untagged(e)>>
=============================================================================
