CONSTANTS
  Atoms <- compress_t_Atoms
  KVs = {1}
  NReg = 2
  Keys = {"k1"}
  MaxSize = 9
  MaxT = 1
  Phases <- compress_t_Phases
  ShapeSet <- compress_t_Shapes
  Signers = {"s1", "s2"}
  Recipients = {"r1", "r2"}
  Policies <- compress_t_Policies
  CfgName = "compress_t"
INIT Init
NEXT Next
VIEW View
CONSTRAINT Bounded
ACTION_CONSTRAINT Emit
CHECK_DEADLOCK FALSE
INVARIANTS WellFormedInv C13Laws
PROPERTIES C02Prop C13Prop C07Prop
