------------------------------ MODULE Machine ------------------------------
(***************************************************************************)
(* The library seen as a state machine: a caller holds a small register    *)
(* file of envelopes; every public call is one action that reads some      *)
(* registers and writes its result into one.  `last` is what the caller    *)
(* observed from the most recent call; `hist` is the call sequence (a      *)
(* history variable hidden from TLC's fingerprint by VIEW) that the        *)
(* replayer executes against the real library.                             *)
(***************************************************************************)
EXTENDS Wire, Extensions, Json

CONSTANTS Atoms,      \* opaque leaf values, e.g. {<<"v","a1">>, <<"v","a2">>}
          KVs,        \* known-value numbers
          NReg,       \* number of registers
          Keys,       \* symmetric key ids
          MaxSize,    \* bound on elements per register
          Phases,     \* Phases[i] = action families enabled for the i-th call; Len(Phases) bounds the depth
          MaxT,       \* bound on the size of target sets
          ShapeSet,   \* input universe for the "build" call
          Signers,    \* signing key pair ids
          Recipients, \* encapsulation key pair ids
          Policies,   \* SSKR policies
          CfgName

VARIABLES reg, last, hist
vars == <<reg, last, hist>>
View == <<reg, Len(hist)>>

Reg    == 1..NReg
Full   == {r \in Reg : reg[r] # NoEnv}
Simple == {Leaf(a) : a \in Atoms} \cup {KV(n) : n \in KVs}
Absent == X(0)

Init == /\ reg = [r \in Reg |-> NoEnv]
        /\ last = <<"init">>
        /\ hist = << >>

(* smallest call id not used by any opaque value held in a register *)
(* call ids mentioned by a digest term (an elided element still names the fresh values it hides) *)
AtomIds(a) == IF a[1] \in {"salt", "sig", "sealed", "share"} THEN {a[2]} ELSE {}
RECURSIVE TermIds(_)
TermIds(d) ==
  IF d[1] # "H" THEN {}
  ELSE (IF d[2][1] = "cbor" THEN AtomIds(d[2][2]) \cup (IF d[2][2][1] = "sig" THEN TermIds(d[2][2][5]) ELSE {})
        ELSE TermIds(d[2]))
       \cup UNION {TermIds(x) : x \in d[3]}
RECURSIVE CallIds(_)
CallIds(e) ==
  CASE e[1] = "node" -> CallIds(e[2]) \cup UNION {CallIds(a) : a \in e[3]}
    [] e[1] = "assn" -> CallIds(e[2]) \cup CallIds(e[3])
    [] e[1] = "wrap" -> CallIds(e[2])
    [] e[1] = "enc"  -> {e[4][1]} \cup CallIds(e[5]) \cup TermIds(e[2])
    [] e[1] = "comp" -> CallIds(e[3]) \cup TermIds(e[2])
    [] e[1] = "elided" -> TermIds(e[2])
    [] e[1] = "leaf" -> AtomIds(e[2]) \cup (IF e[2][1] = "sig" THEN TermIds(e[2][5]) ELSE {})
    [] OTHER -> {}
UsedIds == UNION {CallIds(reg[r]) : r \in Full}
MaxDepth == Len(Phases)
FreshId == CHOOSE i \in 1..(MaxDepth + 1) : i \notin UsedIds /\ \A j \in 1..(i - 1) : j \in UsedIds

(* A call: result r is Ok(env) / Err(kind); on Ok the destination register
   is overwritten, on Err nothing changes. *)
Call(op, dst, args, r) ==
  /\ hist' = Append(hist, <<op, dst>> \o args)
  /\ last' = <<r[1], IF IsOk(r) THEN "" ELSE r[2]>>
  /\ reg'  = IF IsOk(r) THEN [reg EXCEPT ![dst] = Val(r)] ELSE reg

(* An observation: registers unchanged, the answer goes to `last`. *)
Observe(op, args, answer) ==
  /\ hist' = Append(hist, <<op, 0>> \o args)
  /\ last' = <<"obs", answer>>
  /\ UNCHANGED reg

(* ---- construct ---------------------------------------------------------*)
New == \E dst \in Reg, v \in Simple : Call("new", dst, <<v>>, Ok(v))
NewAssertion == \E dst \in Reg, p \in Simple, o \in Simple :
                  Call("new_assertion", dst, <<p, o>>, Ok(Assn(p, o)))
NewAssertionEnv == \E dst \in Reg, rp \in Full, ro \in Full :
                  Call("new_assertion_env", dst, <<rp, ro>>, Ok(Assn(reg[rp], reg[ro])))
Construct == New \/ NewAssertion \/ NewAssertionEnv
(* build: any envelope of the input universe, assembled by the replayer
   through a canonical program of public calls *)
Build == \E dst \in Reg, e \in ShapeSet : Call("build", dst, <<e>>, Ok(e))

(* ---- assertions ----------------------------------------------------------*)
AddAssertionA == \E dst \in Reg, src \in Full, p \in Simple, o \in Simple :
                  Call("add_assertion", dst, <<src, p, o>>, Ok(AddAssertion(reg[src], p, o)))
AddAssertionPOA == \E dst \in Reg, src \in Full, rp \in Full, ro \in Full :
                  Call("add_assertion_po", dst, <<src, rp, ro>>, Ok(AddAssertion(reg[src], reg[rp], reg[ro])))
AddAssertionEnvA == \E dst \in Reg, src \in Full, ra \in Full :
                  Call("add_assertion_envelope", dst, <<src, ra>>, AddAssertionEnv(reg[src], reg[ra]))
RemoveAssertionA == \E dst \in Reg, src \in Full, rt \in Full :
                  Call("remove_assertion", dst, <<src, rt>>, Ok(RemoveAssertion(reg[src], reg[rt])))
ReplaceAssertionA == \E dst \in Reg, src \in Full, ro \in Full, rn \in Full :
                  Call("replace_assertion", dst, <<src, ro, rn>>, ReplaceAssertion(reg[src], reg[ro], reg[rn]))
ReplaceSubjectA == \E dst \in Reg, src \in Full, rs \in Full :
                  Call("replace_subject", dst, <<src, rs>>, Ok(ReplaceSubject(reg[src], reg[rs])))
(* bulk add: a sequence of registers, repetition allowed (add_assertions,
   add_assertion_envelopes, add_assertions_salted(.., false)) *)
RECURSIVE AddSeq(_, _)
AddSeq(e, as) == IF as = << >> THEN Ok(e)
                 ELSE LET r == AddAssertionEnv(e, Head(as)) IN
                      IF IsOk(r) THEN AddSeq(Val(r), Tail(as)) ELSE r
AddAssertionsA == \E dst \in Reg, src \in Full, n \in 2..3 : \E rs \in [1..n -> Full] :
                  Call("add_assertions", dst, <<src, rs>>, AddSeq(reg[src], [i \in 1..n |-> reg[rs[i]]]))
(* the conditional / optional entry points with nothing to add: the envelope comes back as it is *)
NoopKinds == {"optional_none", "if_false", "empty_string", "optional_envelope_none", "envelope_if_false",
              "salted_none", "assertions_empty", "add_assertion_envelopes_empty"}
AddNothingA == \E dst \in Reg, src \in Full, kind \in NoopKinds :
                  Call("add_nothing", dst, <<src, kind>>, Ok(reg[src]))
AssertionsFam == AddNothingA \/ AddAssertionsA \/ AddAssertionA \/ AddAssertionPOA \/ AddAssertionEnvA \/ RemoveAssertionA
                 \/ ReplaceAssertionA \/ ReplaceSubjectA

(* ---- navigation: parts of an envelope into a register -------------------------*)
GetSubject == \E dst \in Reg, src \in Full :
                  Call("subject", dst, <<src>>, Ok(Subject(reg[src])))
GetAssertion == \E dst \in Reg, src \in Full : \E a \in Assertions(reg[src]) :
                  Call("assertion_with_digest", dst, <<src, Dg(a)>>, Ok(a))
GetPredicate == \E dst \in Reg, src \in Full :
                  Call("as_predicate", dst, <<src>>, AsPredicate(reg[src]))
GetObject == \E dst \in Reg, src \in Full :
                  Call("as_object", dst, <<src>>, AsObject(reg[src]))
Navigate == GetSubject \/ GetAssertion \/ GetPredicate \/ GetObject

(* ---- wrap ---------------------------------------------------------------------*)
WrapA   == \E dst \in Reg, src \in Full : Call("wrap", dst, <<src>>, Ok(WrapEnvelope(reg[src])))
UnwrapA == \E dst \in Reg, src \in Full : Call("unwrap", dst, <<src>>, UnwrapEnvelope(reg[src]))
WrapFam == WrapA \/ UnwrapA

(* ---- obscure ------------------------------------------------------------------*)
(* targets: every digest that occurs, one that does not, and the digests that occur only INSIDE what a
   compressed or (decryptable) encrypted element holds - those elements are opaque to elision and proofs *)
RECURSIVE InnerDigests(_)
InnerDigests(e) ==
  CASE e[1] = "comp" -> IF e[4] = "ok" THEN AllDigests(e[3]) \cup InnerDigests(e[3]) ELSE {}
    [] e[1] = "enc"  -> IF e[6] = "ok" THEN AllDigests(e[5]) \cup InnerDigests(e[5]) ELSE {}
    [] e[1] = "node" -> InnerDigests(e[2]) \cup UNION {InnerDigests(a) : a \in e[3]}
    [] e[1] = "assn" -> InnerDigests(e[2]) \cup InnerDigests(e[3])
    [] e[1] = "wrap" -> InnerDigests(e[2])
    [] OTHER -> {}
Targets(e) == AllDigests(e) \cup {Absent} \cup InnerDigests(e)
Actions == {<<"elide">>, <<"compress">>} \cup {<<"encrypt", k, FreshId>> : k \in Keys}
ElideA == \E dst \in Reg, src \in Full : Call("elide", dst, <<src>>, Ok(ElideOne(reg[src])))
ElideSetA ==
  \E dst \in Reg, src \in Full, rev \in BOOLEAN, act \in Actions :
    \E T \in {S \in SUBSET Targets(reg[src]) : Cardinality(S) <= MaxT} :
      Call("elide_set", dst, <<src, T, rev, act>>, Ok(ObscureSet(reg[src], T, rev, act, << >>)))
UnelideA == \E dst \in Reg, src \in Full, rx \in Full :
              Call("unelide", dst, <<src, rx>>, Unelide(reg[src], reg[rx]))
CompressA == \E dst \in Reg, src \in Full : Call("compress", dst, <<src>>, CompressOne(reg[src]))
UncompressA == \E dst \in Reg, src \in Full : Call("uncompress", dst, <<src>>, Uncompress(reg[src]))
CompressSubjectA == \E dst \in Reg, src \in Full :
              Call("compress_subject", dst, <<src>>, CompressSubject(reg[src]))
UncompressSubjectA == \E dst \in Reg, src \in Full :
              Call("uncompress_subject", dst, <<src>>, UncompressSubject(reg[src]))
EncryptSubjectA == \E dst \in Reg, src \in Full, k \in Keys :
              Call("encrypt_subject", dst, <<src, k>>, EncryptSubject(reg[src], k, <<FreshId, << >> >>))
DecryptSubjectA == \E dst \in Reg, src \in Full, k \in Keys :
              Call("decrypt_subject", dst, <<src, k>>, DecryptSubject(reg[src], k))
EncryptA == \E dst \in Reg, src \in Full, k \in Keys :
              Call("encrypt", dst, <<src, k>>, Ok(Encrypt(reg[src], k, <<FreshId, << >> >>)))
DecryptA == \E dst \in Reg, src \in Full, k \in Keys :
              Call("decrypt", dst, <<src, k>>, Decrypt(reg[src], k))

(* ---- adversary: a key holder / anyone able to assemble elements by hand -----------*)
(* an encrypted element whose plaintext does not hash to the digest it declares *)
ForgeEncryptedA == \E dst \in Reg, rp \in Full, rd \in Full, k \in Keys :
              /\ Dg(reg[rp]) # Dg(reg[rd])
              /\ Call("forge_encrypted", dst, <<rp, rd, k>>,
                      Ok(Enc(Dg(reg[rd]), k, <<FreshId, << >> >>, reg[rp], "ok")))
(* one authenticated field of an encrypted subject altered *)
TamperFields == {"ciphertext", "nonce", "tag", "aad"}
Tampered(x, f) == Enc(IF f = "aad" THEN Absent ELSE x[2], x[3], <<x[4][1], x[4][2], f>>, x[5], "bad")
TamperA == \E dst \in Reg, src \in Full, f \in TamperFields :
              /\ IsEnc(Subject(reg[src])) /\ Subject(reg[src])[6] = "ok"
              /\ Call("tamper", dst, <<src, f>>,
                      Ok(IF IsNode(reg[src]) THEN Node(Tampered(reg[src][2], f), reg[src][3])
                                             ELSE Tampered(reg[src], f)))
(* a compressed element whose content does not hash to the digest it declares *)
ForgeCompressedA == \E dst \in Reg, rp \in Full, rd \in Full :
              /\ Dg(reg[rp]) # Dg(reg[rd])
              /\ Call("forge_compressed", dst, <<rp, rd>>, Ok(Comp(Dg(reg[rd]), reg[rp], "ok")))
(* the payload of a compressed element corrupted *)
CorruptA == \E dst \in Reg, src \in Full, how \in {"data", "checksum", "truncate"} :
              /\ IsComp(reg[src]) /\ reg[src][4] = "ok"
              /\ Call("corrupt", dst, <<src, how>>, Ok(Comp(reg[src][2], reg[src][3], "bad")))

(* ---- codec ----------------------------------------------------------------------*)
(* encode to bytes and decode again; the expected result is the source itself *)
EncodeDecodeA == \E dst \in Reg, src \in Full :
              Call("encode_decode", dst, <<src>>, Ok(reg[src]))
(* hand-made bytes: the encoding of a register, structurally mutated at one position,
   given to the decoder *)
(* (a corrupted compressed payload has no wire term: its bytes are whatever the corruption left) *)
RECURSIVE HasCorrupted(_)
HasCorrupted(e) ==
  CASE e[1] = "comp" -> e[4] = "bad" \/ HasCorrupted(e[3])
    [] e[1] = "enc"  -> e[6] = "ok" /\ HasCorrupted(e[5])
    [] e[1] = "node" -> HasCorrupted(e[2]) \/ \E a \in e[3] : HasCorrupted(a)
    [] e[1] = "assn" -> HasCorrupted(e[2]) \/ HasCorrupted(e[3])
    [] e[1] = "wrap" -> HasCorrupted(e[2])
    [] OTHER -> FALSE
DecodeWireA == \E dst \in Reg, src \in Full : \E w \in {Tagged(reg[src])} \cup MutTagged(Tagged(reg[src])) :
              /\ ~HasCorrupted(reg[src])
              /\ Call("decode_wire", dst, <<w>>, DecodeTagged(w))
(* ... mutated at two positions *)
DecodeWire2A == \E dst \in Reg, src \in Full : \E w1 \in MutTagged(Tagged(reg[src])) :
              w1[1] = "tag" /\ w1[2] = TagEnvelope /\ \E w \in MutTagged(w1) :
              Call("decode_wire", dst, <<w>>, DecodeTagged(w))

(* ---- decoration: a holder annotates one of the assertions of an envelope -----------------------*)
DecorateA == \E dst \in Reg, src \in Full : \E a \in Assertions(reg[src]) :
              /\ IsAssn(Subject(a))
              /\ Call("decorate", dst, <<src, Dg(a)>>,
                      AddAssertionEnv(RemoveAssertion(reg[src], a), AddAssertion(a, KV(KvNote), Str("d"))))

(* ---- salt -------------------------------------------------------------------------*)
AddSaltA == \E dst \in Reg, src \in Full :
              Call("add_salt", dst, <<src>>, Ok(AddSaltInstance(reg[src], <<FreshId, 1>>)))
AddSaltLenA == \E dst \in Reg, src \in Full, n \in {0, 7, 8, 20} :
              Call("add_salt_with_len", dst, <<src, n>>,
                   IF n < 8 THEN Err("salt too short") ELSE Ok(AddSaltInstance(reg[src], <<FreshId, 1>>)))
AddSaltRangeA == \E dst \in Reg, src \in Full, r \in {<<7, 9>>, <<8, 8>>, <<9, 30>>} :
              Call("add_salt_in_range", dst, <<src, r[1], r[2]>>,
                   IF r[1] < 8 THEN Err("salt too short") ELSE Ok(AddSaltInstance(reg[src], <<FreshId, 1>>)))
AddAssertionSaltedA == \E dst \in Reg, src \in Full, p \in Simple, o \in Simple, salted \in BOOLEAN :
              Call("add_assertion_salted", dst, <<src, p, o, salted>>,
                   IF salted THEN AddAssertionEnvSalted(reg[src], Assn(p, o), <<FreshId, 1>>)
                             ELSE Ok(AddAssertion(reg[src], p, o)))
AddAssertionEnvSaltedA == \E dst \in Reg, src \in Full, ra \in Full, salted \in BOOLEAN :
              Call("add_assertion_envelope_salted", dst, <<src, ra, salted>>,
                   IF salted THEN AddAssertionEnvSalted(reg[src], reg[ra], <<FreshId, 1>>)
                             ELSE AddAssertionEnv(reg[src], reg[ra]))
SaltFam == AddSaltA \/ AddSaltLenA \/ AddSaltRangeA \/ AddAssertionSaltedA \/ AddAssertionEnvSaltedA

(* ---- signatures ---------------------------------------------------------------------*)
Metas == {{}, {Assn(KV(KvNote), Str("n"))}}
(* Signatures by a deterministic scheme (Extensions!DetSigner) are a function of key and message:
   signing again gives the same assertion, which add_assertion absorbs - also when the earlier one
   is compressed, encrypted or elided.  Randomised schemes give a fresh signature each time. *)
AddSignatureA == \E dst \in Reg, src \in Full, s \in Signers, meta \in Metas :
              Call("add_signature", dst, <<src, s, meta>>, Ok(AddSignature(reg[src], s, FreshId, meta)))
SignA == \E dst \in Reg, src \in Full, s \in Signers :
              Call("sign", dst, <<src, s>>, Ok(Sign(reg[src], s, FreshId)))
(* adversarial 'signed' assertions, assembled from parts by someone holding key s.  "Another subject" is a
   digest of its own: not the Absent digest, which a tampered encrypted subject may declare *)
OtherDigest == <<"X", 1>>
ForgedSigned(e, kind, s, s2, c) ==
  LET good == SigLeaf(<<c, 1>>, s, Dg(Subject(e)))
      meta == {Assn(KV(KvNote), Str("n"))}
      wrapped == Wrap(FoldAdd(good, meta)) IN
  CASE kind = "other_subject"    -> AddAssertion(e, KV(KvSigned), SigLeaf(<<c, 1>>, s, OtherDigest))
    [] kind = "unsigned_wrapper" -> AddAssertion(e, KV(KvSigned), wrapped)
    [] kind = "foreign_wrapper"  -> AddAssertion(e, KV(KvSigned),
                                       AddAssertion(wrapped, KV(KvSigned), SigLeaf(<<c, 2>>, s2, Dg(wrapped))))
    [] kind = "two_outer"        -> AddAssertion(e, KV(KvSigned),
                                       AddAssertion(AddAssertion(wrapped, KV(KvSigned), SigLeaf(<<c, 2>>, s, Dg(wrapped))),
                                                    KV(KvSigned), SigLeaf(<<c, 3>>, s2, Dg(wrapped))))
    [] kind = "junk"             -> AddAssertion(e, KV(KvSigned), Str("junk"))
    [] kind = "junk_outer"       -> AddAssertion(e, KV(KvSigned), AddAssertion(wrapped, KV(KvSigned), Str("junk")))
    [] kind = "inner_other"      -> LET w2 == Wrap(FoldAdd(SigLeaf(<<c, 1>>, s, OtherDigest), meta)) IN
                                    AddAssertion(e, KV(KvSigned),
                                       AddAssertion(w2, KV(KvSigned), SigLeaf(<<c, 2>>, s, Dg(w2))))
    [] kind = "decorated"        -> Val(AddAssertionEnvSalted(e, Assn(KV(KvSigned), good), <<c, 9>>))
ForgeKinds == {"other_subject", "unsigned_wrapper", "foreign_wrapper", "two_outer", "junk", "junk_outer",
               "inner_other", "decorated"}
ForgeSignedA == \E dst \in Reg, src \in Full, kind \in ForgeKinds, s \in Signers :
              \E s2 \in Signers \ {s} :
              Call("forge_signed", dst, <<src, kind, s, s2>>, Ok(ForgedSigned(reg[src], kind, s, s2, FreshId)))
KeyLists == {<<a>> : a \in Signers} \cup {<<a, b>> : a \in Signers, b \in Signers}
            \cup (IF Cardinality(Signers) >= 3 THEN {<<a, b, c>> : a \in Signers, b \in Signers, c \in Signers} ELSE {})
ObsVerify == \E src \in Full, keys \in KeyLists, th \in 0..4 :
              /\ th <= Len(keys) + 1
              /\ Observe("obs_verify", <<src, keys, th>>,
                    [ each |-> [i \in 1..Len(keys) |-> HasSignatureFrom(reg[src], keys[i])],
                      threshold |-> HasSignaturesFromThreshold(reg[src], keys, IF th = 0 THEN Len(keys) ELSE th),
                      metadata |-> <<"set", {Dg(x) : x \in MetadataFor(reg[src], keys[1])}>>,
                      verify |-> LET r == Verify(reg[src], keys[1]) IN IF IsOk(r) THEN Ok(Dg(Val(r))) ELSE r ])
SignatureFam == AddSignatureA \/ SignA

(* ---- recipients, seal -------------------------------------------------------------------*)
CK(id) == "ck" \o ToString(id)
RecipientLists == {<<a>> : a \in Recipients} \cup {<<a, b>> : a \in Recipients, b \in Recipients}
EncryptSubjectToRecipientsA == \E dst \in Reg, src \in Full, rs \in RecipientLists :
              Call("encrypt_subject_to_recipients", dst, <<src, rs>>,
                   EncryptSubjectToRecipients(reg[src], rs, CK(FreshId), FreshId))
EncryptToRecipientA == \E dst \in Reg, src \in Full, r \in Recipients :
              Call("encrypt_to_recipient", dst, <<src, r>>, Ok(EncryptToRecipient(reg[src], r, CK(FreshId), FreshId)))
(* add_recipient needs the content key: possible for subjects encrypted under a caller-held key *)
AddRecipientA == \E dst \in Reg, src \in Full, r \in Recipients, k \in Keys :
              Call("add_recipient", dst, <<src, r, k>>, Ok(AddRecipient(reg[src], r, k, <<FreshId, 1>>)))
(* ... or by first opening the envelope as an existing recipient r0 (re-sharing) *)
ShareWithA == \E dst \in Reg, src \in Full, r0 \in Recipients, r \in Recipients :
              /\ RecipientUnambiguous(reg[src], r0)
              /\ LET objs == {x \in RecipientObjects(reg[src]) : IsSealedLeaf(Subject(x)) /\ Subject(x)[2][4] = r0} IN
                 /\ objs # {}
                 /\ Call("share_with", dst, <<src, r0, r>>,
                         Ok(AddRecipient(reg[src], r, Subject(CHOOSE x \in objs : TRUE)[2][5], <<FreshId, 1>>)))
DecryptSubjectToRecipientA == \E dst \in Reg, src \in Full, r \in Recipients :
              /\ RecipientUnambiguous(reg[src], r)
              /\ Call("decrypt_subject_to_recipient", dst, <<src, r>>, DecryptSubjectToRecipient(reg[src], r))
DecryptToRecipientA == \E dst \in Reg, src \in Full, r \in Recipients :
              /\ RecipientUnambiguous(reg[src], r)
              /\ Call("decrypt_to_recipient", dst, <<src, r>>, DecryptToRecipient(reg[src], r))
SealA == \E dst \in Reg, src \in Full, s \in Signers, r \in Recipients :
              Call("seal", dst, <<src, s, r>>, Ok(Seal(reg[src], s, r, CK(FreshId), FreshId)))
UnsealA == \E dst \in Reg, src \in Full, s \in Signers, r \in Recipients :
              /\ RecipientUnambiguous(reg[src], r)
              /\ Call("unseal", dst, <<src, s, r>>, Unseal(reg[src], s, r))
RecipientEncFam == EncryptSubjectToRecipientsA \/ EncryptToRecipientA \/ SealA
RecipientAddFam == AddRecipientA \/ ShareWithA
RecipientDecFam == DecryptSubjectToRecipientA \/ DecryptToRecipientA \/ UnsealA

(* ---- SSKR ---------------------------------------------------------------------------------*)
HonestEncUnder(e, k) == IsEnc(Subject(e)) /\ Subject(e)[3] = k /\ Subject(e)[6] = "ok" /\ Dg(Subject(e)[5]) = Subject(e)[2]
RECURSIVE SetToSeq(_)
SetToSeq(S) == IF S = {} THEN << >> ELSE LET x == CHOOSE x \in S : TRUE IN <<x>> \o SetToSeq(S \ {x})
SskrSplitJoinA == \E dst \in Reg, src \in Full, k \in Keys, policy \in Policies :
              /\ HonestEncUnder(reg[src], k)
              /\ \E S \in SUBSET AllMembers(policy) :
                   LET c == FreshId
                       envs == [i \in 1..Cardinality(S) |->
                                  LET x == SetToSeq(S)[i] IN ShareEnvelope(reg[src], c, x[1], x[2], policy, k)] IN
                   Call("sskr_split_join", dst, <<src, k, policy, S>>, SskrJoin(envs))
SskrPickA == \E dst \in Reg, src \in Full, k \in Keys, policy \in Policies :
              /\ HonestEncUnder(reg[src], k)
              /\ \E x \in AllMembers(policy) :
                   Call("sskr_split_pick", dst, <<src, k, policy, x[1], x[2], FreshId>>,
                        Ok(ShareEnvelope(reg[src], FreshId, x[1], x[2], policy, k)))
(* another share of the split a register's share came from *)
SskrPickMoreA == \E dst \in Reg, src \in Full :
              \E sh \in {Subject(o) : o \in ObjectsForPredicate(reg[src], KV(KvSskrShare))} :
              /\ IsShareLeaf(sh)
              /\ \E x \in AllMembers(sh[2][5]) :
                   /\ <<x[1], x[2]>> # <<sh[2][3], sh[2][4]>>
                   /\ Call("sskr_pick_more", dst, <<src, sh[2][2], x[1], x[2]>>,
                           Ok(ShareEnvelope(RemoveAssertion(reg[src], Assn(KV(KvSskrShare), sh)),
                                            sh[2][2], x[1], x[2], sh[2][5], sh[2][6])))
SskrJoinRegsA == \E dst \in Reg : \E rs \in {<<a>> : a \in Full} \cup {<<x[1], x[2]>> : x \in {y \in Full \X Full : y[1] # y[2]}}
                                          \cup {<<x[1], x[2], x[3]>> : x \in {y \in Full \X Full \X Full : y[1] # y[2] /\ y[1] # y[3] /\ y[2] # y[3]}} :
              (* the same share presented twice is outside "a subset of the share envelopes" *)
              /\ \A i \in 1..Len(rs), j \in 1..Len(rs) : i # j =>
                    SharesIn(<<reg[rs[i]]>>) \cap SharesIn(<<reg[rs[j]]>>) = {}
              /\ Call("sskr_join", dst, <<rs>>, SskrJoin([i \in 1..Len(rs) |-> reg[rs[i]]]))

(* ---- proofs ----------------------------------------------------------------------------------*)
ProofA == \E dst \in Reg, src \in Full :
              \E T \in {S \in SUBSET Targets(reg[src]) : Cardinality(S) <= MaxT} :   \* the empty set included
              LET p == ProofContainsSet(reg[src], T) IN
              Call("proof_contains_set", dst, <<src, T>>, IF p = Nothing THEN Err("none") ELSE Ok(p))
(* a verifier holding only the root digest of r1 is shown r2 as a proof for T *)
ObsConfirm == \E r1 \in Full, r2 \in Full :
              \E T \in {S \in SUBSET (Targets(reg[r1]) \cup AllDigests(reg[r2])) : Cardinality(S) <= MaxT} :
              Observe("obs_confirm", <<r1, r2, T>>,
                      [ accept |-> (reg[r2] = ProofContainsSet(reg[r1], T)) \/ ConfirmContainsSet(reg[r1], T, reg[r2]),
                        produced |-> reg[r2] = ProofContainsSet(reg[r1], T),
                        nested |-> NestedTargets(reg[r1], T) ])

(* ---- types and attachments ---------------------------------------------------------------------*)
TypeVals == Simple \cup {Str("T")}
AddTypeA == \E dst \in Reg, src \in Full, t \in TypeVals : Call("add_type", dst, <<src, t>>, Ok(AddType(reg[src], t)))
ObsTypes == \E src \in Full, t \in TypeVals :
              Observe("obs_types", <<src, t>>,
                      [ types |-> <<"set", {Dg(x) : x \in Types(reg[src])}>>,
                        has |-> HasType(reg[src], t),
                        get |-> LET r == GetType(reg[src]) IN IF IsOk(r) THEN Ok(Dg(Val(r))) ELSE r ])
Vendors == {"v1", "v2"}
Conforms == {NoStr, "c1", ""}   \* the empty string is a value, not an absence
AddAttachmentA == \E dst \in Reg, src \in Full, rp \in Full, v \in Vendors, c \in Conforms :
              Call("add_attachment", dst, <<src, rp, v, c>>, AddAssertionEnv(reg[src], AttachmentAssn(reg[rp], v, c)))
(* the Attachments container (attachments.rs): a digest-keyed collection, added to an envelope at once *)
AttSpecs == {<<rp, v, c>> : rp \in Full, v \in {"v1"}, c \in {NoStr, "c1"}}
AttachContainerA == \E dst \in Reg, src \in Full : \E L \in {<<a>> : a \in AttSpecs} \cup {<<a, b>> : a \in AttSpecs, b \in AttSpecs} :
              (* the container is keyed by digest: of two attachments with one digest in different forms (a
                 payload and its obscured twin) it keeps one, which one is not specified *)
              /\ \A i, j \in 1..Len(L) :
                    LET x == AttachmentAssn(reg[L[i][1]], L[i][2], L[i][3])
                        y == AttachmentAssn(reg[L[j][1]], L[j][2], L[j][3]) IN Dg(x) = Dg(y) => x = y
              /\ Call("attach_container", dst, <<src, L>>,
                   Ok(FoldAdd(reg[src], {AttachmentAssn(reg[L[i][1]], L[i][2], L[i][3]) : i \in 1..Len(L)})))
ObsContainer == \E src \in Full :
              Observe("obs_container", <<src>>,
                      LET r == Attachments(reg[src], NoStr, NoStr) IN
                      IF IsOk(r) THEN Ok(<<"set", {Dg(a) : a \in Val(r)}>>) ELSE r)
(* malformed attachment assertions (one part removed / duplicated / altered) *)
BadAttachment(payload, kind) ==
  LET good == AttachmentAssn(payload, "v1", "c1") IN
  CASE kind = "no_vendor"   -> Assn(KV(KvAttachment), AddAssertion(Wrap(payload), KV(KvConformsTo), Str("c1")))
    [] kind = "two_vendors" -> Assn(KV(KvAttachment), AddAssertion(good[3], KV(KvVendor), Str("v2")))
    [] kind = "no_wrap"     -> Assn(KV(KvAttachment), AddAssertion(payload, KV(KvVendor), Str("v1")))
    [] kind = "extra"       -> Assn(KV(KvAttachment), AddAssertion(good[3], KV(KvNote), Str("n")))
    [] kind = "two_conforms" -> Assn(KV(KvAttachment), AddAssertion(good[3], KV(KvConformsTo), Str("c2")))
    [] kind = "vendor_not_string" -> Assn(KV(KvAttachment), AddAssertion(Wrap(payload), KV(KvVendor), KV(1)))
BadKinds == {"no_vendor", "two_vendors", "no_wrap", "extra", "two_conforms", "vendor_not_string"}
AddBadAttachmentA == \E dst \in Reg, src \in Full, rp \in Full, kind \in BadKinds :
              /\ ~IsNode(reg[rp]) /\ ~IsWrap(reg[rp])
              /\ Call("add_bad_attachment", dst, <<src, rp, kind>>, AddAssertionEnv(reg[src], BadAttachment(reg[rp], kind)))
AttAnswer(e, v, c) ==
  LET r == Attachments(e, v, c) IN
  [ list |-> IF IsOk(r) THEN Ok(<<"set", {Dg(a) : a \in Val(r)}>>) ELSE r,
    single |-> IF ~IsOk(r) THEN r
               ELSE IF Val(r) = {} THEN Err("NonexistentAttachment")
               ELSE IF Cardinality(Val(r)) > 1 THEN Err("AmbiguousAttachment")
               ELSE Ok(Dg(CHOOSE a \in Val(r) : TRUE)),
    parts |-> IF IsOk(r) THEN <<"set", {<<Dg(a), Dg(Subject(a[3])[2]), AttVendor(a), AttConform(a)>> : a \in Val(r)}>>
              ELSE <<"set", {}>> ]
ObsAttachments == \E src \in Full, v \in Vendors \cup {NoStr}, c \in Conforms :
              Observe("obs_attachments", <<src, v, c>>, AttAnswer(reg[src], v, c))

(* ---- expressions, requests, responses, events -------------------------------------------*)
Fns    == {<<"k", 1>>, <<"k", 2>>, <<"n", "f">>, <<"n", "1">>}
Params == {<<"k", 1>>, <<"k", 2>>, <<"n", "p">>}
(* parameter lists: <<parameter, register holding the value>> *)
ParamLists == {<< >>} \cup {<< <<q, r>> >> : q \in Params, r \in Full}
              \cup {<< <<x[1], x[2]>>, <<x[3], x[4]>> >> : x \in Params \X Full \X Params \X Full}
PVals(ps) == [i \in 1..Len(ps) |-> <<ps[i][1], reg[ps[i][2]]>>]
Notes == {"", "n", " "}   \* a blank note is a note (with_note stores it verbatim)
Dates == {NoDate, "int", "frac", "neg"}
BuildExpressionA == \E dst \in Reg, f \in Fns : \E ps \in ParamLists :
      Call("expression", dst, <<f, ps>>, Ok(ExprEnv(f, PVals(ps))))
BuildRequestA == \E dst \in Reg, f \in {<<"k", 1>>, <<"n", "f">>}, id \in 1..2, note \in Notes, d \in Dates : \E ps \in ParamLists :
      /\ Len(ps) <= 1 /\ (Len(ps) = 1 => ps[1][1] \in {<<"k", 1>>, <<"n", "p">>})
      /\ Call("request", dst, <<f, ps, id, note, d>>, Ok(RequestEnv(f, PVals(ps), id, note, d)))
BuildResponseA == \E dst \in Reg, variant \in {"success", "failure", "early"}, id \in 1..2 :
      \E payload \in {<<"reg", r>> : r \in Full} \cup {KV(KvOk), KV(KvUnknown)} :
      Call("response", dst, <<variant, id, payload>>,
           Ok(ResponseEnv(variant, id, IF payload[1] = "reg" THEN reg[payload[2]] ELSE payload)))
BuildEventA == \E dst \in Reg, rc \in Full, id \in {1}, note \in Notes, d \in Dates :
      Call("event", dst, <<rc, id, note, d>>, Ok(EventEnv(reg[rc], id, note, d)))
(* one part added, removed or retagged *)
MalformKinds == {"drop_body", "second_body", "retag_subject", "add_error", "add_result", "drop_result", "drop_error",
                 "second_note", "note_not_string", "date_not_date", "subject_other_kv", "drop_content", "second_content", "salted_body"}
Malformed(e, kind) ==
  LET dropPred(kv) == FoldAdd(Subject(e), Assertions(e) \ AssertionsWithPredicate(e, KV(kv))) IN
  CASE kind = "drop_body"      -> dropPred(KvBody)
    [] kind = "second_body"    -> AddAssertion(e, KV(KvBody), FnLeaf(<<"k", 2>>))
    [] kind = "retag_subject"  -> ReplaceSubject(e, IF IsLeaf(Subject(e)) /\ Subject(e)[2][1] = "evid"
                                                     THEN Leaf(<<"reqid", 1>>) ELSE Leaf(<<"evid", 1>>))
    [] kind = "add_error"      -> AddAssertion(e, KV(KvError), Str("x"))
    [] kind = "add_result"     -> AddAssertion(e, KV(KvResult), Str("x"))
    [] kind = "drop_result"    -> dropPred(KvResult)
    [] kind = "drop_error"     -> dropPred(KvError)
    [] kind = "second_note"    -> AddAssertion(AddAssertion(e, KV(KvNote), Str("n")), KV(KvNote), Str("m"))
    [] kind = "note_not_string" -> AddAssertion(dropPred(KvNote), KV(KvNote), KV(1))
    [] kind = "date_not_date"  -> AddAssertion(dropPred(KvDate), KV(KvDate), Str("x"))
    [] kind = "subject_other_kv" -> ReplaceSubject(e, Leaf(<<"respunknown", KvOk>>))
    [] kind = "drop_content"   -> dropPred(KvContent)
    [] kind = "second_content" -> AddAssertion(e, KV(KvContent), Str("x"))
    [] kind = "salted_body"    -> LET B == AssertionsWithPredicate(e, KV(KvBody)) IN
                                  IF Cardinality(B) # 1 THEN e   \* (which of several bodies would be salted is not fixed)
                                  ELSE Val(AddAssertionEnvSalted(dropPred(KvBody), CHOOSE b \in B : TRUE, <<FreshId, 1>>))
MalformA == \E dst \in Reg, src \in Full, kind \in MalformKinds :
      /\ Malformed(reg[src], kind) # reg[src]
      /\ Call("malform", dst, <<src, kind>>, Ok(Malformed(reg[src], kind)))
ObsParse == \E src \in Full :
      \/ \E expected \in Fns \cup {NoFn} :
           \/ Observe("obs_parse", <<src, "expression", expected>>, ParseExpression(reg[src], expected))
           \/ Observe("obs_parse", <<src, "request", expected>>, ParseRequest(reg[src], expected))
      \/ Observe("obs_parse", <<src, "response", NoFn>>, ParseResponse(reg[src]))
      \/ Observe("obs_parse", <<src, "event", NoFn>>, ParseEvent(reg[src]))
ExprBuildFam == BuildExpressionA \/ BuildRequestA \/ BuildResponseA \/ BuildEventA

(* ---- observations ------------------------------------------------------------------*)
ObsStructure == \E src \in Full : Observe("obs_structure", <<src>>, StructureFacts(reg[src]))
ObsWalk == \E src \in Full :
              \/ Observe("obs_walk", <<src, FALSE>>, WalkStructure(reg[src], 0, "None", NoParent))
              \/ Observe("obs_walk", <<src, TRUE>>, WalkTree(reg[src], 0, NoParent))
(* tree_format: one line per visited element: indentation by level, short id, edge label, summary *)
ObsTreeFormat == \E src \in Full : \E T \in {{}} \cup {{d} : d \in AllDigests(reg[src])} \cup {AllDigests(reg[src])} :
              \/ Observe("obs_tree_format", <<src, FALSE, T>>, Highlighted(WalkStructure(reg[src], 0, "None", NoParent), T))
              \/ Observe("obs_tree_format", <<src, TRUE, T>>, Highlighted(WalkTree(reg[src], 0, NoParent), T))
(* the text renderings: format, format_flat, diagnostic, hex, tree_format, UR: they return (C16), the counts
   of obscured-element markers agree with the structure, and format / format_flat are the layout of
   Queries!Notation *)
RECURSIVE CountCase(_, _), SumOver(_, _)
SumOver(S, c) == IF S = {} THEN 0 ELSE LET x == CHOOSE x \in S : TRUE IN CountCase(x, c) + SumOver(S \ {x}, c)
CountCase(e, c) ==
  (IF e[1] = c THEN 1 ELSE 0) +
  CASE e[1] = "node" -> CountCase(e[2], c) + SumOver(e[3], c)
    [] e[1] = "assn" -> CountCase(e[2], c) + CountCase(e[3], c)
    [] e[1] = "wrap" -> CountCase(e[2], c)
    [] OTHER -> 0
ObsFormat == \E src \in Full :
              Observe("obs_format", <<src>>, [elided |-> CountCase(reg[src], "elided"), encrypted |-> CountCase(reg[src], "enc"),
                                             compressed |-> CountCase(reg[src], "comp"), elements |-> Size(reg[src]),
                                             notation |-> Notation(reg[src])])
ObsDigests == \E src \in Full, k \in 0..(MaxSize + 1) :
              /\ k <= Depth(reg[src]) + 2
              /\ Observe("obs_digests", <<src, k>>, <<"set", DigestsUpTo(reg[src], k)>>)
(* predicates to look up: every simple value, every predicate present, every register *)
PredicatesIn(e) == {Subject(a)[2] : a \in {x \in Assertions(e) : IsAssn(Subject(x))}}
LookupAnswer(e, p) ==
  [ assertions_with_predicate |-> <<"set", {Dg(a) : a \in AssertionsWithPredicate(e, p)}>>,
    assertion_with_predicate  |-> LET r == AssertionWithPredicate(e, p) IN IF IsOk(r) THEN Ok(Dg(Val(r))) ELSE r,
    object_for_predicate      |-> LET r == ObjectForPredicate(e, p) IN IF IsOk(r) THEN Ok(Dg(Val(r))) ELSE r,
    objects_for_predicate     |-> <<"set", {Dg(o) : o \in ObjectsForPredicate(e, p)}>>,
    optional_object_for_predicate |-> LET r == OptionalObjectForPredicate(e, p) IN
                                      IF IsOk(r) /\ Val(r) # <<"nothing">> THEN Ok(Dg(Val(r))) ELSE r ]
ObsLookup == \E src \in Full :
               \/ \E p \in Simple :
                     Observe("obs_lookup", <<src, <<"val", p>>>>, LookupAnswer(reg[src], p))
               \/ \E p \in PredicatesIn(reg[src]) :   \* a predicate present, named by its digest
                     Observe("obs_lookup", <<src, <<"dig", Dg(p)>>>>, LookupAnswer(reg[src], p))
               \/ \E rp \in Full :
                     Observe("obs_lookup", <<src, <<"reg", rp>>>>, LookupAnswer(reg[src], reg[rp]))
ObsExtract == \E src \in Full, ty \in ExtractTypes :
               Observe("obs_extract", <<src, ty>>, ExtractSubject(reg[src], ty))
ObsCompare == \E r1 \in Full, r2 \in Full :
               Observe("obs_compare", <<r1, r2>>,
                       [ equivalent |-> Equivalent(reg[r1], reg[r2]),
                         identical  |-> Identical(reg[r1], reg[r2]),
                         img1 |-> StructImage(reg[r1]), img2 |-> StructImage(reg[r2]) ])
ObserveFam == ObsStructure \/ ObsWalk \/ ObsFormat \/ ObsTreeFormat \/ ObsDigests \/ ObsLookup \/ ObsExtract

Fam(f, A) == Len(hist) < Len(Phases) /\ f \in Phases[Len(hist) + 1] /\ A

Bounded == \A r \in Full : Size(reg[r]) <= MaxSize

(* One JSON line per explored transition (cfg: ACTION_CONSTRAINT Emit). *)
AnnR(e) == IF e = NoEnv THEN e ELSE Ann(e)
WireR(e) == IF e = NoEnv THEN e ELSE Tagged(e)
Dst == hist'[Len(hist')][2]
Emit == PrintT(<<"BEH", ToJson([cfg  |-> CfgName,
                                steps |-> hist',
                                pre  |-> [r \in Reg |-> AnnR(reg[r])],
                                out  |-> last',
                                res  |-> IF Dst = 0 THEN NoEnv ELSE AnnR(reg'[Dst]),
                                wire |-> IF Dst = 0 THEN NoEnv ELSE WireR(reg'[Dst])])>>)
=============================================================================
