------------------------------- MODULE Props -------------------------------
(***************************************************************************)
(* The properties, written declaratively over the machine (state           *)
(* invariants and action properties).  They do not mention how the         *)
(* operators of EnvelopeOps compute their results; TLC checks that the     *)
(* operational definitions satisfy them on every reachable state and       *)
(* transition of a bounded instance.                                       *)
(***************************************************************************)
EXTENDS Machine

LastStep == hist'[Len(hist')]
Op       == LastStep[1]
Arg(i)   == LastStep[i + 2]
OkStep   == last'[1] = "ok"
ErrStep  == last'[1] = "err"
Src      == reg[Arg(1)]            \* for calls whose first argument is the source register
Res      == reg'[LastStep[2]]

(* ---- C01 ---------------------------------------------------------------*)
(* every obscured element the library produced declares the digest of what it hides *)
DeclaredDigestHonest ==
  \A r \in Full : \A x \in Elements(reg[r]) :
     /\ IsEnc(x)  => Dg(x[5]) = x[2]
     /\ IsComp(x) => Dg(x[3]) = x[2]
(* the digest does not depend on which parts are obscured (route independence) *)
RevealKeepsDigest == \A r \in Full : Dg(Reveal(reg[r])) = Dg(reg[r])

(* ---- C02 ---------------------------------------------------------------*)
ObscureOps == {"elide", "elide_set", "compress", "compress_subject", "encrypt_subject"}
C02Step ==
  /\ (OkStep /\ Op \in ObscureOps) =>
        /\ Dg(Res) = Dg(Src)
        /\ \A p \in Paths(Res) : p \in Paths(Src) /\ Dg(At(Res, p)) = Dg(At(Src, p))
  /\ (OkStep /\ Op = "encrypt") => (IsEnc(Res) /\ Dg(Res) = Dg(Wrap(Src)))
C02Prop == [][C02Step]_vars

(* ---- C03 ---------------------------------------------------------------*)
HiddenAt(e, T, rev, q) == (Dg(At(e, q)) \in T) # rev
Hidden(e, T, rev, p)   == \E q \in Prefixes(p) : HiddenAt(e, T, rev, q)
Topmost(e, T, rev, p)  == CHOOSE q \in Prefixes(p) :
                             /\ HiddenAt(e, T, rev, q)
                             /\ \A n \in 0..(Len(q) - 1) : ~HiddenAt(e, T, rev, SubSeq(q, 1, n))
ObscuredAs(x, orig, act) ==
  CASE act[1] = "elide"    -> x = Elided(Dg(orig))
    [] act[1] = "encrypt"  -> IsEnc(x) /\ x[2] = Dg(orig) /\ x[3] = act[2] /\ x[5] = orig /\ x[6] = "ok"
    [] act[1] = "compress" -> IF IsObscured(orig) THEN x = orig
                              ELSE IsComp(x) /\ x[2] = Dg(orig) /\ x[3] = orig
(* own content of a clear element (children are covered by their own paths) *)
SameOwn(x, y) == /\ x[1] = y[1]
                 /\ x[1] \in {"leaf", "kv"} => x = y
                 /\ IsObscured(x) => x = y
C03Step ==
  (OkStep /\ Op = "elide_set") =>
     LET e == Src  T == Arg(2)  rev == Arg(3)  act == Arg(4)  r == Res IN
     /\ \A p \in Paths(e) :
          IF Hidden(e, T, rev, p)
          THEN LET q == Topmost(e, T, rev, p) IN
               /\ q \in Paths(r)
               /\ ObscuredAs(At(r, q), At(e, q), act)
               /\ p # q => p \notin Paths(r)
          ELSE p \in Paths(r) /\ SameOwn(At(r, p), At(e, p))
     /\ Paths(r) \subseteq Paths(e)
     (* no residue: with the elide action an atom that only occurred below hidden
        positions is gone from everything that is serialized in clear *)
     /\ act[1] = "elide" =>
          ClearAtoms(r) \subseteq
             {At(e, p)[2] : p \in {p2 \in Paths(e) : IsLeaf(At(e, p2)) /\ ~Hidden(e, T, rev, p2)}}
             \cup UNION {ClearAtoms(At(e, p)) : p \in {p2 \in Paths(e) : IsComp(At(e, p2)) /\ ~Hidden(e, T, rev, p2)}}
C03Unelide ==
  (Op = "unelide") =>
     /\ OkStep <=> Dg(reg[Arg(1)]) = Dg(reg[Arg(2)])
     /\ OkStep => Res = reg[Arg(2)]
C03Prop == [][C03Step /\ C03Unelide]_vars

(* ---- C04 ---------------------------------------------------------------*)
WellFormedInv == \A r \in Full : WellFormed(reg[r])

(* ---- C08 ---------------------------------------------------------------*)
Honest(x) == \A y \in Elements(x) : (IsEnc(y) => (Dg(y[5]) = y[2] /\ y[6] = "ok")) /\ (IsComp(y) => (Dg(y[3]) = y[2] /\ y[4] = "ok"))
C08Step ==
  /\ (Op = "decrypt_subject") =>
        LET e == Src  s == Subject(Src)  k == Arg(2) IN
        /\ OkStep <=> (IsEnc(s) /\ s[3] = k /\ s[6] = "ok" /\ Dg(s[5]) = s[2])
        /\ OkStep => /\ Dg(Res) = Dg(e)
                     /\ IF IsNode(e) THEN Res = Node(s[5], e[3]) ELSE Res = s[5]
  /\ (Op = "encrypt_subject") =>
        /\ ErrStep <=> (IsEnc(Subject(Src)) \/ (~IsNode(Src) /\ IsElided(Src)))
        /\ OkStep => (Dg(Res) = Dg(Src) /\ IsEnc(Subject(Res)) /\ Assertions(Res) = Assertions(Src))
  (* decrypt = decrypt_subject then unwrap: what comes back is the content of the wrapped subject *)
  /\ (Op = "decrypt" /\ OkStep) =>
        LET d == DecryptSubject(Src, Arg(2)) IN IsOk(d) /\ Dg(Wrap(Res)) = Dg(Subject(Val(d)))
C08Prop == [][C08Step]_vars
(* encrypt then decrypt with the same key is the identity; any other key fails *)
C08Laws ==
  \A r \in Full, k \in Keys :
    LET e == reg[r]  n == <<FreshId, << >> >>  es == EncryptSubject(e, k, n) IN
    /\ IsOk(es) => /\ DecryptSubject(Val(es), k) = Ok(e)
                   /\ \A k2 \in Keys \ {k} : ~IsOk(DecryptSubject(Val(es), k2))
                   /\ ~IsOk(EncryptSubject(Val(es), k, n))
    /\ Decrypt(Encrypt(e, k, n), k) = Ok(e)

(* ---- C13 ---------------------------------------------------------------*)
C13Step ==
  /\ (Op = "uncompress") =>
        /\ OkStep <=> (IsComp(Src) /\ Src[4] = "ok" /\ Dg(Src[3]) = Src[2])
        /\ OkStep => (Dg(Res) = Dg(Src) /\ Res = Src[3])
  /\ (Op \in {"compress", "compress_subject", "uncompress_subject"} /\ OkStep) => Dg(Res) = Dg(Src)
  /\ (Op = "uncompress_subject" /\ OkStep /\ IsNode(Src)) => Assertions(Res) = Assertions(Src)
C13Prop == [][C13Step]_vars
C13Laws ==
  \A r \in Full :
    LET e == reg[r]  c == CompressOne(e)  cs == CompressSubject(e) IN
    /\ IsOk(c)  => /\ Dg(Val(c)) = Dg(e)
                   /\ CompressOne(Val(c)) = c
                   /\ (~IsComp(e)) => Uncompress(Val(c)) = Ok(e)
    /\ IsOk(cs) => /\ Dg(Val(cs)) = Dg(e)
                   /\ CompressSubject(Val(cs)) = cs
                   /\ (~IsComp(Subject(e))) => UncompressSubject(Val(cs)) = Ok(e)

(* ---- C14 ---------------------------------------------------------------*)
(* the structural image (what structural_digest hashes) carries exactly the pattern *)
Cases(e) == {<<p, At(e, p)[1]>> : p \in Paths(e)}
C14Laws ==
  \A r1 \in Full, r2 \in Full :
    LET x == reg[r1]  y == reg[r2] IN
    /\ (StructImage(x) = StructImage(y)) => (Pattern(x) = Pattern(y))
    (* the converse up to the image collision (an assertion {X: Y} and a node [X, Y] have equal patterns,
       their image terms are spelled differently and evaluate to the same bytes) *)
    /\ (Pattern(x) = Pattern(y) /\ Cases(x) = Cases(y)) => (StructImage(x) = StructImage(y))
    /\ Identical(x, y) => Equivalent(x, y)
    /\ Identical(x, x)
    /\ Identical(x, y) <=> Identical(y, x)
C14Step ==
  /\ (Op = "encode_decode" /\ OkStep) => Identical(Res, Src)
  /\ (Op \in {"elide", "elide_set", "compress"} /\ OkStep) =>
        /\ Equivalent(Res, Src)
        (* obscuring an element that was present in clear changes the pattern *)
        /\ (\E p \in Paths(Src) : ~IsObscured(At(Src, p)) /\ p \in Paths(Res) /\ IsObscured(At(Res, p)))
              => ~Identical(Res, Src)
        /\ Pattern(Res) = Pattern(Src) => Identical(Res, Src)
C14Prop == [][C14Step]_vars

(* ---- C05 / C06 ---------------------------------------------------------*)
(* decoding the encoding of any envelope held in a register gives it back *)
C05RoundTrip == \A r \in Full : DecodeTagged(Tagged(reg[r])) = Ok(reg[r])
(* whatever the decoder accepts re-encodes to the very input (modulo the #6.24 alias) *)
C06Step == (Op = "decode_wire" /\ OkStep) => Tagged(Res) = Alias24(Arg(1))
C06Prop == [][C06Step]_vars

(* ---- C09 ---------------------------------------------------------------*)
(* signing makes the signer verify; obscuring / adding assertions never changes any verdict;
   a different subject never verifies under an old signature *)
C09Step ==
  (* a signature that was added verifies.  A deterministic signature whose assertion is already
     present in obscured form (say with its object elided) is the same assertion: add_assertion's
     digest check absorbs it (C07) and nothing is added - the envelope comes back unchanged *)
  /\ (Op \in {"add_signature", "sign"} /\ OkStep /\ Res # Src) => HasSignatureFrom(Res, Arg(2))
  /\ (Op = "add_signature" /\ OkStep /\ Res = Src /\ Arg(3) = {}) =>
        /\ DetSigner(Arg(2))
        /\ \E x \in Assertions(Src) : Dg(x) = Dg(Assn(KV(KvSigned), SigLeaf(<<0, 0>>, Arg(2), Dg(Subject(Src)))))
  /\ (Op = "add_signature" /\ OkStep) =>
        (\A k \in Signers \ {Arg(2)} : HasSignatureFrom(Res, k) <=> HasSignatureFrom(Src, k))
  /\ (Op \in {"elide_set", "add_assertion"} /\ OkStep /\ Dg(Subject(Res)) = Dg(Subject(Src))
        /\ (Op = "elide_set" => \A o \in SignedObjects(Src) : o \in SignedObjects(Res))) =>
        (\A k \in Signers : HasSignatureFrom(Src, k) => HasSignatureFrom(Res, k))
  /\ (Op = "forge_signed" /\ OkStep /\ Arg(2) # "decorated") =>
        (\A k \in Signers : HasSignatureFrom(Res, k) <=> HasSignatureFrom(Src, k))
  /\ (Op = "forge_signed" /\ OkStep /\ Arg(2) = "decorated") => HasSignatureFrom(Res, Arg(3))
C09Prop == [][C09Step]_vars

(* ---- C10 ---------------------------------------------------------------*)
C10Step ==
  /\ (Op = "encrypt_subject_to_recipients" /\ OkStep) =>
        /\ Dg(Subject(Res)) = Dg(Subject(Src))
        (* a source that already carries a 'hasRecipient' for the same recipient with ANOTHER content key
           leaves two sealed messages that open: which one wins is not fixed by the property *)
        /\ \A i \in 1..Len(Arg(2)) : RecipientUnambiguous(Res, Arg(2)[i]) =>
              LET d == DecryptSubjectToRecipient(Res, Arg(2)[i]) IN
              IsOk(d) /\ Subject(Val(d)) = Subject(Src) /\ Dg(Val(d)) = Dg(Res)
        /\ \A r \in Recipients : (\A i \in 1..Len(Arg(2)) : Arg(2)[i] # r) => ~IsOk(DecryptSubjectToRecipient(Res, r))
  /\ (Op = "encrypt_to_recipient" /\ OkStep) =>
        /\ DecryptToRecipient(Res, Arg(2)) = Ok(Src)
        /\ \A r \in Recipients \ {Arg(2)} : ~IsOk(DecryptToRecipient(Res, r))
  /\ (Op = "seal" /\ OkStep) =>
        /\ Unseal(Res, Arg(2), Arg(3)) = Ok(Src)
        /\ \A s \in Signers \ {Arg(2)} : ~IsOk(Unseal(Res, s, Arg(3)))
        /\ \A r \in Recipients \ {Arg(3)} : ~IsOk(Unseal(Res, Arg(2), r))
  /\ (Op \in {"add_recipient", "share_with"} /\ OkStep) =>
        \* earlier recipients can still open, and get the same subject
        \A r \in Recipients :
           (RecipientUnambiguous(Src, r) /\ RecipientUnambiguous(Res, r) /\ IsOk(DecryptSubjectToRecipient(Src, r))) =>
              LET d == DecryptSubjectToRecipient(Res, r) IN
              IsOk(d) /\ Subject(Val(d)) = Subject(Val(DecryptSubjectToRecipient(Src, r)))
C10Prop == [][C10Step]_vars

(* ---- C11 ---------------------------------------------------------------*)
C11Step ==
  (Op = "sskr_split_join") =>
     LET e == Src  k == Arg(2)  policy == Arg(3)  S == Arg(4) IN
     /\ OkStep <=> (S # {} /\ Quorum(policy, S))
     /\ OkStep => Res = Subject(Val(DecryptSubject(e, k)))
C11Prop == [][C11Step]_vars

(* ---- C12 ---------------------------------------------------------------*)
C12Step ==
  (Op = "proof_contains_set") =>
     LET e == Src  T == Arg(2) IN
     /\ OkStep <=> T \subseteq AllDigests(e)                          \* produced iff every target occurs
     /\ OkStep =>
          /\ Dg(Res) = Dg(e)                                           \* same root
          /\ (~NestedTargets(e, T)) => ConfirmContainsSet(Elided(Dg(e)), T, Res)   \* accepted (see DESIGN: nested targets)
          (* minimal disclosure: whatever is not elided lies on a path from the root to a target,
             and no target is disclosed *)
          /\ \A p \in Paths(Res) : ~IsElided(At(Res, p)) =>
                 /\ Dg(At(e, p)) \in RevealSet(e, T)
                 /\ Dg(At(e, p)) \notin T \/ IsElided(At(e, p))
          /\ Paths(Res) \subseteq Paths(e)
C12Prop == [][C12Step]_vars

(* ---- C15 ---------------------------------------------------------------*)
(* the operational walks (level counters, parent threading) against the declarative positions *)
RECURSIVE VisitSet(_), VisitCount(_)
VisitSet(w) ==
  CASE w[1] = "visit"  -> {<<w[2], w[3], w[4], w[5]>>} \cup UNION {VisitSet(w[6][i]) : i \in 1..Len(w[6])}
    [] w[1] = "seq"    -> UNION {VisitSet(w[2][i]) : i \in 1..Len(w[2])}
    [] w[1] = "sorted" -> UNION {VisitSet(x[2]) : x \in w[2]}
RECURSIVE SumCounts(_)
SumCounts(S) == IF S = {} THEN 0 ELSE LET x == CHOOSE x \in S : TRUE IN VisitCount(x[2]) + SumCounts(S \ {x})
RECURSIVE SeqCounts(_)
SeqCounts(q) == IF q = << >> THEN 0 ELSE VisitCount(Head(q)) + SeqCounts(Tail(q))
VisitCount(w) ==
  CASE w[1] = "visit"  -> 1 + SeqCounts(w[6])
    [] w[1] = "seq"    -> SeqCounts(w[2])
    [] w[1] = "sorted" -> SumCounts(w[2])
EdgeOfStep(st) == CASE st[1] = "s" -> "Subject" [] st[1] = "a" -> "Assertion" [] st[1] = "w" -> "Wrapped"
                    [] st[1] = "p" -> "Predicate" [] st[1] = "o" -> "Object"
ParentPath(q) == SubSeq(q, 1, Len(q) - 1)
StructureVisits(e) ==
  {<<Dg(At(e, q)), Len(q), IF q = << >> THEN "None" ELSE EdgeOfStep(q[Len(q)]),
     IF q = << >> THEN NoParent ELSE Dg(At(e, ParentPath(q)))>> : q \in Paths(e)}
(* tree mode: node elements are not visited; a node's subject stays at the node's level *)
RECURSIVE TreeLevel(_, _)
TreeLevel(e, q) ==     \* level at which the element at path q is visited in tree mode
  IF q = << >> THEN 0
  ELSE LET pq == ParentPath(q)  par == At(e, pq)  st == q[Len(q)] IN
       IF IsNode(par)
       THEN IF st[1] = "s" THEN TreeLevel(e, pq) ELSE TreeLevel(e, pq) + 1
       ELSE TreeLevel(e, pq) + 1
C15Laws ==
  \A r \in Full :
    LET e == reg[r]  ws == WalkStructure(e, 0, "None", NoParent)  wt == WalkTree(e, 0, NoParent) IN
    /\ VisitSet(ws) = StructureVisits(e)                            \* each element, its depth, edge kind, parent
    /\ VisitCount(ws) = Cardinality(Paths(e))                       \* exactly once
    /\ ElementsCount(e) = Cardinality(Paths(e))
    /\ VisitCount(wt) = Cardinality({q \in Paths(e) : ~IsNode(At(e, q))})
    /\ {<<v[1], v[2]>> : v \in VisitSet(wt)} = {<<Dg(At(e, q)), TreeLevel(e, q)>> : q \in {q2 \in Paths(e) : ~IsNode(At(e, q2))}}
    /\ \A k \in 0..(Depth(e) + 2) :
          DigestsUpTo(e, k) = UNION {{Dg(At(e, q)), Dg(Subject(At(e, q)))} : q \in {q2 \in Paths(e) : Len(q2) < k}}
    /\ DigestsUpTo(e, Depth(e) + 1) = AllDigests(e)

(* ---- C17 ---------------------------------------------------------------*)
SaltOps == {"add_salt", "add_salt_with_len", "add_salt_in_range"}
C17Step ==
  /\ (Op \in SaltOps /\ OkStep) =>
        /\ Subject(Res) = Subject(Src)
        /\ Assertions(Src) \subseteq Assertions(Res)
        /\ \E a \in Assertions(Res) \ Assertions(Src) :
              /\ Assertions(Res) = Assertions(Src) \cup {a}
              /\ IsAssn(a) /\ a[2] = KV(KvSalt) /\ IsSaltLeaf(a[3])
  /\ (Op = "add_salt_with_len") => (ErrStep <=> Arg(2) < 8)
  /\ (Op = "add_salt_in_range") => (ErrStep <=> Arg(2) < 8)
  /\ (Op = "add_assertion_salted" /\ OkStep /\ Arg(4)) =>
        \E a \in Assertions(Res) \ Assertions(Src) :
           /\ Assertions(Res) = Assertions(Src) \cup {a}
           /\ a \in AssertionsWithPredicate(Res, Arg(2))            \* still found by its predicate
           /\ IsNode(a) /\ a[2] = Assn(Arg(2), Arg(3))
           /\ Cardinality(a[3]) = 1 /\ \A s \in a[3] : IsAssn(s) /\ s[2] = KV(KvSalt) /\ IsSaltLeaf(s[3])
  /\ (Op = "add_assertion_salted" /\ OkStep /\ ~Arg(4)) => Res = AddAssertion(Src, Arg(2), Arg(3))
C17Prop == [][C17Step]_vars

(* ---- C18 ---------------------------------------------------------------*)
C18Step ==
  /\ (Op = "expression" /\ OkStep) =>
        /\ \E x \in {ParseExpression(Res, NoFn)} : IsOk(x) /\ SameFunction(Val(x)[2], Arg(1))
        /\ IsOk(ParseExpression(Res, Arg(1)))
        /\ \A g \in Fns : ~SameFunction(g, Arg(1)) => ~IsOk(ParseExpression(Res, g))
        /\ Val(ParseExpression(Res, NoFn))[3][2] = {<<Arg(2)[i][1], Dg(reg[Arg(2)[i][2]])>> : i \in 1..Len(Arg(2))}
  /\ (Op = "request" /\ OkStep) =>
        LET x == ParseRequest(Res, NoFn) IN
        /\ IsOk(x) /\ SameFunction(Val(x)[2], Arg(1)) /\ Val(x)[4] = Arg(3) /\ Val(x)[5] = Arg(4) /\ Val(x)[6] = Arg(5)
        /\ Val(x)[3][2] = {<<Arg(2)[i][1], Dg(reg[Arg(2)[i][2]])>> : i \in 1..Len(Arg(2))}
        /\ ~IsOk(ParseResponse(Res)) /\ ~IsOk(ParseEvent(Res))
  /\ (Op = "response" /\ OkStep) =>
        LET x == ParseResponse(Res) IN
        /\ IsOk(x) /\ Val(x)[2] = Arg(1) /\ Val(x)[4] = Dg(IF Arg(3)[1] = "reg" THEN reg[Arg(3)[2]] ELSE Arg(3))
        /\ Arg(1) # "early" => Val(x)[3] = Arg(2)
        /\ ~IsOk(ParseRequest(Res, NoFn))
  /\ (Op = "event" /\ OkStep) =>
        LET x == ParseEvent(Res) IN
        IsOk(x) /\ Val(x)[2] = Dg(reg[Arg(1)]) /\ Val(x)[3] = Arg(2) /\ Val(x)[4] = Arg(3) /\ Val(x)[5] = Arg(4)
  (* both or neither of result / error, a wrongly tagged subject: rejected *)
  (* ... of something that was a well-formed response / request *)
  /\ (Op = "malform" /\ OkStep /\ Arg(2) \in {"add_error", "add_result", "drop_result", "drop_error", "retag_subject", "subject_other_kv"}
        /\ IsOk(ParseResponse(Src))) => ~IsOk(ParseResponse(Res))
  /\ (Op = "malform" /\ OkStep /\ Arg(2) \in {"drop_body", "second_body", "retag_subject"} /\ IsOk(ParseRequest(Src, NoFn))) =>
        ~IsOk(ParseRequest(Res, NoFn))
C18Prop == [][C18Step]_vars

(* ---- C19 ---------------------------------------------------------------*)
C19Step ==
  /\ (Op = "add_attachment" /\ OkStep) =>
        LET a == AttachmentAssn(reg[Arg(2)], Arg(3), Arg(4)) IN
        /\ ValidAttachment(a)
        /\ AttVendor(a) = Arg(3) /\ AttConform(a) = Arg(4) /\ Subject(a[3])[2] = reg[Arg(2)]
        (* retrievable - unless the same assertion was already there in obscured form, in which case
           add_assertion's digest check absorbs the new one (C07) and nothing was added *)
        /\ ((\A x \in AssertionsWithPredicate(Res, KV(KvAttachment)) : ValidAttachment(x))
             /\ ~\E x \in Assertions(Src) : Dg(x) = Dg(a) /\ x # a) =>
              \E y \in Val(Attachments(Res, Arg(3), Arg(4))) : Dg(y) = Dg(a)
  /\ (Op = "add_bad_attachment" /\ OkStep /\ Res # Src) => ~IsOk(Attachments(Res, NoStr, NoStr))
  /\ (Op = "add_type" /\ OkStep) =>
        /\ (~\E x \in Assertions(Src) : Dg(x) = Dg(Assn(KV(KvIsA), Arg(2))) /\ x # Assn(KV(KvIsA), Arg(2))) => HasType(Res, Arg(2))
        /\ \A t \in TypeVals : (Dg(t) # Dg(Arg(2))) => (HasType(Res, t) <=> HasType(Src, t))
C19Prop == [][C19Step]_vars

(* ---- C07 ---------------------------------------------------------------*)
C07Laws ==
  \A r1 \in Full, r2 \in Full, r3 \in Full :
    LET e == reg[r1]  a == reg[r2]  b == reg[r3]
        ea == AddAssertionEnv(e, a)  eb == AddAssertionEnv(e, b) IN
    (* order is irrelevant - for inputs that do not collide: the digest image of a node with
       one assertion [X, Y] equals that of an assertion {X: Y} (a property of the format, found
       by TLC), and dedupe-by-digest keeps whichever of two colliding elements came first *)
    /\ (IsOk(ea) /\ IsOk(eb) /\ (Dg(a) = Dg(b) => a = b)) =>
          AddAssertionEnv(Val(ea), b) = AddAssertionEnv(Val(eb), a)
    /\ IsOk(ea) => AddAssertionEnv(Val(ea), a) = ea
    /\ (IsOk(ea) /\ \A x \in Assertions(e) : Dg(x) # Dg(a)) => RemoveAssertion(Val(ea), a) = e
    /\ (IsOk(ea) /\ ~IsNode(e)) => RemoveAssertion(Val(ea), a) = Subject(e)
    /\ UnwrapEnvelope(WrapEnvelope(e)) = Ok(e)
(* no call alters a register other than its destination *)
C07SourcesStep == \A r \in Reg : r # LastStep[2] => reg'[r] = reg[r]
C07Prop == [][C07SourcesStep]_vars
=============================================================================
