CONSTANTS
  Codes = {1, 2}
  Names = {"a", "b"}
  MaxOps = 4
INIT RInit
NEXT RNext
INVARIANTS TypeOK NamesComeFromInserts LatestWins
PROPERTY CtxFrozen
ACTION_CONSTRAINT REmit
CHECK_DEADLOCK FALSE
