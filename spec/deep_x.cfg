CONSTANTS
  Atoms <- deep_x_Atoms
  KVs = {1}
  NReg = 3
  Keys = {"k1", "k2"}
  MaxSize = 16
  MaxT = 1
  Phases <- deep_x_Phases
  ShapeSet <- deep_x_Shapes
  Signers = {"s1", "s2"}
  Recipients = {"r1", "r2"}
  Policies <- deep_x_Policies
  CfgName = "deep_x"
INIT Init
NEXT Next
VIEW View
CONSTRAINT Bounded
ACTION_CONSTRAINT Emit
CHECK_DEADLOCK FALSE
INVARIANTS WellFormedInv
PROPERTIES C02Prop C03Prop C07Prop C13Prop C08Prop C09Prop C10Prop C11Prop C12Prop C14Prop C17Prop C18Prop C19Prop C06Prop
