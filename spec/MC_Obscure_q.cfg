CONSTANTS
  Atoms <- A2
  KVs = {1}
  NReg = 1
  Keys = {"k1"}
  MaxDepth = 2
  MaxSize = 12
  Enabled = {"build","elide","compress","encrypt"}
  MaxT = 3
  ShapeSet <- Sh3_5
  CfgName = "obscure.q"
INIT Init
NEXT Next
VIEW View
CONSTRAINT Bounded
ACTION_CONSTRAINT Emit
INVARIANT WellFormedInv
CHECK_DEADLOCK FALSE
