CONSTANTS
  Atoms <- sskr_t_Atoms
  KVs = {1}
  NReg = 1
  Keys = {"k1"}
  MaxSize = 30
  MaxT = 1
  Phases <- sskr_t_Phases
  ShapeSet <- sskr_t_Shapes
  Signers = {"s1", "s2"}
  Recipients = {"r1", "r2"}
  Policies <- sskr_t_Policies
  CfgName = "sskr_t"
INIT Init
NEXT Next
VIEW View
CONSTRAINT Bounded
ACTION_CONSTRAINT Emit
CHECK_DEADLOCK FALSE
INVARIANTS WellFormedInv
PROPERTIES C11Prop
