CONSTANTS
  Atoms <- compress_q_Atoms
  KVs = {1}
  NReg = 2
  Keys = {"k1"}
  MaxSize = 9
  MaxT = 1
  Phases <- compress_q_Phases
  ShapeSet <- compress_q_Shapes
  CfgName = "compress_q"
INIT Init
NEXT Next
VIEW View
CONSTRAINT Bounded
ACTION_CONSTRAINT Emit
CHECK_DEADLOCK FALSE
INVARIANTS WellFormedInv C13Laws
PROPERTIES C02Prop C13Prop C07Prop
