CONSTANTS
  Atoms <- compress_q_Atoms
  KVs = {1}
  NReg = 2
  Keys = {"k1"}
  MaxSize = 9
  MaxT = 1
  Phases <- compress_q_Phases
  ShapeSet <- compress_q_Shapes
  Signers = {"s1", "s2"}
  Recipients = {"r1", "r2"}
  Policies <- compress_q_Policies
  CfgName = "compress_q"
INIT Init
NEXT Next
VIEW View
CONSTRAINT Bounded
ACTION_CONSTRAINT Emit
CHECK_DEADLOCK FALSE
INVARIANTS WellFormedInv C13Laws
PROPERTIES C02Prop C13Prop C07Prop
