CONSTANTS
  Atoms <- A2
  KVs = {1}
  NReg = 2
  Keys = {"k1"}
  MaxDepth = 4
  MaxSize = 7
  Enabled = {"construct","assertions","navigate","wrap"}
  MaxT = 2
  ShapeSet <- NoShapes
  CfgName = "core.q"
INIT Init
NEXT Next
VIEW View
CONSTRAINT Bounded
ACTION_CONSTRAINT Emit
INVARIANT WellFormedInv
CHECK_DEADLOCK FALSE
