CONSTANTS
  Atoms <- unelide_q_Atoms
  KVs = {1}
  NReg = 2
  Keys = {"k1"}
  MaxSize = 9
  MaxT = 1
  Phases <- unelide_q_Phases
  ShapeSet <- unelide_q_Shapes
  Signers = {"s1", "s2"}
  Recipients = {"r1", "r2"}
  Policies <- unelide_q_Policies
  CfgName = "unelide_q"
INIT Init
NEXT Next
VIEW View
CONSTRAINT Bounded
ACTION_CONSTRAINT Emit
CHECK_DEADLOCK FALSE
INVARIANTS WellFormedInv DeclaredDigestHonest RevealKeepsDigest
PROPERTIES C02Prop C03Prop C07Prop
