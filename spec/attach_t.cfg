CONSTANTS
  Atoms <- attach_t_Atoms
  KVs = {1}
  NReg = 1
  Keys = {"k1"}
  MaxSize = 40
  MaxT = 1
  Phases <- attach_t_Phases
  ShapeSet <- attach_t_Shapes
  Signers = {"s1", "s2"}
  Recipients = {"r1", "r2"}
  Policies <- attach_t_Policies
  CfgName = "attach_t"
INIT Init
NEXT Next
VIEW View
CONSTRAINT Bounded
ACTION_CONSTRAINT Emit
CHECK_DEADLOCK FALSE
INVARIANTS WellFormedInv
PROPERTIES C19Prop
