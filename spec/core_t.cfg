CONSTANTS
  Atoms <- core_t_Atoms
  KVs = {1}
  NReg = 2
  Keys = {"k1"}
  MaxSize = 7
  MaxT = 2
  Phases <- core_t_Phases
  ShapeSet <- core_t_Shapes
  Signers = {"s1", "s2"}
  Recipients = {"r1", "r2"}
  Policies <- core_t_Policies
  CfgName = "core_t"
INIT Init
NEXT Next
VIEW View
CONSTRAINT Bounded
ACTION_CONSTRAINT Emit
CHECK_DEADLOCK FALSE
INVARIANTS WellFormedInv DeclaredDigestHonest RevealKeepsDigest C07Laws
PROPERTIES C02Prop C03Prop C07Prop
