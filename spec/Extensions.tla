----------------------------- MODULE Extensions -----------------------------
(***************************************************************************)
(* Extensions of the base format: salt, signatures (with metadata),        *)
(* public-key recipients and seal, SSKR, inclusion proofs, types and       *)
(* attachments.  Cryptography is symbolic (Dolev-Yao):                     *)
(*   <<"sig", call, k, signer, D>>      a signature by `signer` over the   *)
(*                                      32 bytes of digest D               *)
(*   <<"sealed", call, k, recipient, ck>> content key ck sealed to a       *)
(*                                      recipient's public key             *)
(*   <<"share", call, g, m, policy, ck>> SSKR share (group g, member m) of *)
(*                                      content key ck under `policy`      *)
(*   <<"salt", call, k>>                random salt bytes                  *)
(* A key pair is named by one id; "the public key of s" and "the private   *)
(* key of s" are both written s.                                           *)
(***************************************************************************)
EXTENDS Queries

KvIsA == 1   KvSigned == 3   KvNote == 4   KvHasRecipient == 5   KvSskrShare == 6
KvSalt == 15 KvAttachment == 50   KvVendor == 51   KvConformsTo == 52
Str(s) == Leaf(<<"str", s>>)
Nothing == <<"nothing">>
NoStr == "~none~"            \* an absent optional string argument

(* ---- salt (salt.rs, assertions.rs:*_salted) -------------------------------*)
SaltLeaf(id) == Leaf(<<"salt", id[1], id[2]>>)
IsSaltLeaf(e) == IsLeaf(e) /\ e[2][1] = "salt"
AddSaltInstance(e, id) == AddAssertion(e, KV(KvSalt), SaltLeaf(id))
(* add_optional_assertion_envelope_salted(Some(a), TRUE): salt the assertion first *)
AddAssertionEnvSalted(e, a, id) ==
  IF ~AssertionLike(a) THEN Err("InvalidFormat") ELSE AddAssertionEnv(e, AddSaltInstance(a, id))

(* ---- signatures (signature_impl.rs) ----------------------------------------*)
(* Ed25519, ECDSA (RFC 6979) and the SSH variants sign deterministically, Schnorr (BIP-340 with fresh
   auxiliary randomness) and ML-DSA do not: signer s1 stands for the first kind, every other signer
   for the second (the harness picks the schemes accordingly).  A deterministic signature is a
   function of key and message, so it carries no call identity. *)
DetSigner(s) == s = "s1"
SigLeaf(id, signer, D) == Leaf(<<"sig", IF DetSigner(signer) THEN 0 ELSE id[1],
                                        IF DetSigner(signer) THEN 0 ELSE id[2], signer, D>>)
IsSigLeaf(e) == IsLeaf(e) /\ e[2][1] = "sig"
SigVerifies(e, key, D) == IsSigLeaf(e) /\ e[2][4] = key /\ e[2][5] = D

(* add_signature_opt: sign the SUBJECT digest; with metadata: the signature with the
   metadata assertions, wrapped, plus an outer signature over the wrapper by the same key *)
AddSignature(e, signer, call, meta) ==
  LET sig == SigLeaf(<<call, 1>>, signer, Dg(Subject(e))) IN
  IF meta = {} THEN AddAssertion(e, KV(KvSigned), sig)
  ELSE LET wrapped == Wrap(FoldAdd(sig, meta))
           outer   == SigLeaf(<<call, 2>>, signer, Dg(wrapped)) IN
       AddAssertion(e, KV(KvSigned), AddAssertion(wrapped, KV(KvSigned), outer))
Sign(e, signer, call) == AddSignature(Wrap(e), signer, call, {})

(* What counts as a signature by `key` on envelope e (declarative): the object of a
   'signed' assertion that is a signature by key over e's subject digest, or a wrapper
   around such a signature (with metadata) that carries exactly one outer 'signed'
   assertion whose object is a signature by the same key over the wrapper. *)
SignedObjects(e) == ObjectsForPredicate(e, KV(KvSigned))
ValidPlain(o, e, key)   == ~IsWrap(Subject(o)) /\ SigVerifies(Subject(o), key, Dg(Subject(e)))
ValidWrapped(o, e, key) ==
  /\ IsWrap(Subject(o))
  /\ SigVerifies(Subject(Subject(o)[2]), key, Dg(Subject(e)))
  /\ Cardinality(AssertionsWithPredicate(o, KV(KvSigned))) = 1
  /\ \A x \in ObjectsForPredicate(o, KV(KvSigned)) : SigVerifies(Subject(x), key, Dg(Subject(o)))
ValidSig(o, e, key) == ValidPlain(o, e, key) \/ ValidWrapped(o, e, key)
HasSignatureFrom(e, key) == \E o \in SignedObjects(e) : ValidSig(o, e, key)
(* the metadata envelopes a verifier may be handed for key *)
MetadataFor(e, key) ==
  {o : o \in {x \in SignedObjects(e) : ValidPlain(x, e, key)}}
  \cup {Subject(o)[2] : o \in {x \in SignedObjects(e) : ValidWrapped(x, e, key)}}
(* threshold over a LIST of keys (entries count, as documented) *)
RECURSIVE CountValid(_, _)
CountValid(e, keys) == IF keys = << >> THEN 0
                       ELSE (IF HasSignatureFrom(e, Head(keys)) THEN 1 ELSE 0) + CountValid(e, Tail(keys))
HasSignaturesFromThreshold(e, keys, th) == CountValid(e, keys) >= th

(* ---- recipients (recipient.rs, seal.rs) -----------------------------------------*)
SealedLeaf(id, r, ck) == Leaf(<<"sealed", id[1], id[2], r, ck>>)
IsSealedLeaf(e) == IsLeaf(e) /\ e[2][1] = "sealed"
AddRecipient(e, r, ck, id) == AddAssertion(e, KV(KvHasRecipient), SealedLeaf(id, r, ck))
RECURSIVE AddRecipients(_, _, _, _, _)
AddRecipients(e, rs, ck, call, i) ==
  IF rs = << >> THEN e ELSE AddRecipients(AddRecipient(e, Head(rs), ck, <<call, i>>), Tail(rs), ck, call, i + 1)
EncryptSubjectToRecipients(e, rs, ck, call) ==
  LET r == EncryptSubject(e, ck, <<call, << >> >>) IN
  IF IsOk(r) THEN Ok(AddRecipients(Val(r), rs, ck, call, 1)) ELSE r
RecipientObjects(e) == {o \in ObjectsForPredicate(e, KV(KvHasRecipient)) : ~IsObscured(o)}
DecryptSubjectToRecipient(e, r) ==
  LET objs == RecipientObjects(e) IN
  IF \E o \in objs : ~IsSealedLeaf(Subject(o)) THEN Err("InvalidFormat")
  ELSE LET mine == {Subject(o)[2][5] : o \in {x \in objs : Subject(x)[2][4] = r}} IN
       IF mine = {} THEN Err("UnknownRecipient")
       ELSE DecryptSubject(e, CHOOSE ck \in mine : TRUE)
(* all sealed messages this recipient can open carry one content key (else "first wins"
   depends on digest order, which the properties leave open) *)
RecipientUnambiguous(e, r) ==
  Cardinality({Subject(o)[2][5] : o \in {x \in RecipientObjects(e) : IsSealedLeaf(Subject(x)) /\ Subject(x)[2][4] = r}}) <= 1
EncryptToRecipient(e, r, ck, call) == Val(EncryptSubjectToRecipients(Wrap(e), <<r>>, ck, call))
DecryptToRecipient(e, r) ==
  LET d == DecryptSubjectToRecipient(e, r) IN IF IsOk(d) THEN UnwrapEnvelope(Val(d)) ELSE d
Seal(e, sender, r, ck, call) == EncryptToRecipient(Sign(e, sender, call), r, ck, call)
Verify(e, key) == IF HasSignatureFrom(e, key) THEN UnwrapEnvelope(e) ELSE Err("UnverifiedSignature")
Unseal(e, sender, r) ==
  LET d == DecryptToRecipient(e, r) IN IF IsOk(d) THEN Verify(Val(d), sender) ELSE d

(* ---- SSKR (sskr.rs) ------------------------------------------------------------------*)
(* policy == <<groupThreshold, << <<m1, n1>>, ..., <<mk, nk>> >> >> *)
ShareLeaf(call, g, m, policy, ck) == Leaf(<<"share", call, g, m, policy, ck>>)
IsShareLeaf(e) == IsLeaf(e) /\ e[2][1] = "share"
ShareEnvelope(e, call, g, m, policy, ck) == AddAssertion(e, KV(KvSskrShare), ShareLeaf(call, g, m, policy, ck))
AllMembers(policy) == UNION {{<<g, m>> : m \in 1..policy[2][g][2]} : g \in 1..Len(policy[2])}
Quorum(policy, S) ==
  Cardinality({g \in 1..Len(policy[2]) : Cardinality({x \in S : x[1] = g}) >= policy[2][g][1]}) >= policy[1]
(* join: shares found in the envelopes, grouped by split; a split whose shares reach
   its quorum yields its key; the FIRST envelope's subject is decrypted with it *)
SharesIn(envs) == UNION {{Subject(o) : o \in ObjectsForPredicate(envs[i], KV(KvSskrShare))} : i \in 1..Len(envs)}
SskrJoin(envs) ==
  IF envs = << >> THEN Err("InvalidShares")
  ELSE LET shares == SharesIn(envs) IN
       IF \E s \in shares : ~IsShareLeaf(s) THEN Err("InvalidFormat")
       ELSE LET splits == {s[2][2] : s \in shares}
                good == {c \in splits :
                           LET mine == {s \in shares : s[2][2] = c}
                               any == CHOOSE s \in mine : TRUE IN
                           /\ Quorum(any[2][5], {<<s[2][3], s[2][4]>> : s \in mine})
                           /\ IsOk(DecryptSubject(envs[1], any[2][6]))} IN
            IF good = {} THEN Err("InvalidShares")
            ELSE LET c == CHOOSE c \in good : TRUE
                     s == CHOOSE s \in shares : s[2][2] = c IN
                 Ok(Subject(Val(DecryptSubject(envs[1], s[2][6]))))

(* ---- inclusion proofs (proof.rs) --------------------------------------------------------*)
(* digests on a path from the root to an occurrence of a target *)
RevealSet(e, T) ==
  UNION {{Dg(At(e, q)) : q \in Prefixes(p)} : p \in {p2 \in Paths(e) : Dg(At(e, p2)) \in T}}
ProofContainsSet(e, T) ==
  LET reveal == RevealSet(e, T) IN
  IF ~(T \subseteq reveal) THEN Nothing
  ELSE ObscureSet(ObscureSet(e, reveal, TRUE, <<"elide">>, << >>), T, FALSE, <<"elide">>, << >>)
ConfirmContainsSet(root, T, proof) == Dg(root) = Dg(proof) /\ T \subseteq AllDigests(proof)
(* two targets one of which occurs only below occurrences of the other *)
NestedTargets(e, T) ==
  \E t1 \in T, t2 \in T : t1 # t2 /\
     \A p \in {p2 \in Paths(e) : Dg(At(e, p2)) = t2} :
        \E q \in Prefixes(p) : q # p /\ Dg(At(e, q)) = t1

(* ---- types (types.rs) -----------------------------------------------------------------------*)
AddType(e, t) == AddAssertion(e, KV(KvIsA), t)
Types(e) == ObjectsForPredicate(e, KV(KvIsA))
HasType(e, t) == \E x \in Types(e) : Dg(x) = Dg(t)
GetType(e) == IF Cardinality(AssertionsWithPredicate(e, KV(KvIsA))) = 1
              THEN Ok(CHOOSE x \in Types(e) : TRUE) ELSE Err("AmbiguousType")

(* ---- attachments (attachment_impl.rs) ---------------------------------------------------------*)
AttachmentAssn(payload, vendor, conf) ==
  LET w == AddAssertion(Wrap(payload), KV(KvVendor), Str(vendor)) IN
  Assn(KV(KvAttachment), IF conf = NoStr THEN w ELSE AddAssertion(w, KV(KvConformsTo), Str(conf)))
IsStr(e) == IsLeaf(e) /\ e[2][1] = "str"
(* an attachment assertion is valid iff it is exactly what new_attachment builds from the
   payload / vendor / conformsTo it exhibits *)
AttVendors(a)  == ObjectsForPredicate(a[3], KV(KvVendor))
AttConforms(a) == ObjectsForPredicate(a[3], KV(KvConformsTo))
ValidAttachment(a) ==
  /\ IsAssn(a) /\ IsWrap(Subject(a[3]))
  /\ Cardinality(AssertionsWithPredicate(a[3], KV(KvVendor))) = 1
  /\ \A v \in AttVendors(a) : IsStr(Subject(v))
  /\ Cardinality(AssertionsWithPredicate(a[3], KV(KvConformsTo))) <= 1
  /\ \A c \in AttConforms(a) : IsStr(Subject(c))
  /\ LET v == Subject(CHOOSE v \in AttVendors(a) : TRUE)[2][2]
         c == IF AttConforms(a) = {} THEN NoStr ELSE Subject(CHOOSE c \in AttConforms(a) : TRUE)[2][2] IN
     Dg(a) = Dg(AttachmentAssn(Subject(a[3])[2], v, c))
AttVendor(a)  == Subject(CHOOSE v \in AttVendors(a) : TRUE)[2][2]
AttConform(a) == IF AttConforms(a) = {} THEN NoStr ELSE Subject(CHOOSE c \in AttConforms(a) : TRUE)[2][2]
(* attachments_with_vendor_and_conforms_to: Err if any 'attachment' assertion is invalid *)
Attachments(e, vendor, conf) ==
  LET A == AssertionsWithPredicate(e, KV(KvAttachment)) IN
  IF \E a \in A : ~ValidAttachment(a) THEN Err("InvalidAttachment")
  ELSE Ok({a \in A : /\ (vendor # NoStr => AttVendor(a) = vendor)
                     /\ (conf # NoStr => AttConform(a) = conf)})

(* ---- expressions, requests, responses, events (extension/expressions/*.rs) --------------------*)
(* atoms: <<"fn", "k", n>> / <<"fn", "n", name>> a function (#6.40006 of an integer / a text);       *)
(*        <<"param", "k", n>> / <<"param", "n", name>> a parameter (#6.40007);                       *)
(*        <<"reqid", i>>, <<"respid", i>>, <<"evid", i>> an ARID i tagged request (#6.40004),       *)
(*        response (#6.40005), event (#6.40026); <<"respunknown", n>> #6.40005 of known value n;     *)
(*        <<"date", d>> a date (#6.1)                                                                 *)
KvBody == 100  KvResult == 101  KvError == 102  KvOk == 103  KvDate == 16  KvUnknown == 17  KvContent == 108
FnLeaf(f)    == Leaf(<<"fn", f[1], f[2]>>)
ParamLeaf(q) == Leaf(<<"param", q[1], q[2]>>)
DateLeaf(d)  == Leaf(<<"date", d>>)
NoDate == "~none~"
IsFnLeaf(e)    == IsLeaf(e) /\ e[2][1] = "fn"
IsParamLeaf(e) == IsLeaf(e) /\ e[2][1] = "param"
IsDateLeaf(e)  == IsLeaf(e) /\ e[2][1] = "date"
RECURSIVE SubjLeaf(_)
SubjLeaf(e) == IF IsNode(e) THEN SubjLeaf(e[2]) ELSE e       \* what extract_subject looks at

(* Expression::new(f).with_parameter(p1, v1)...: parameters are added one by one (dedupe by digest) *)
RECURSIVE WithParams(_, _)
WithParams(e, ps) == IF ps = << >> THEN e
                     ELSE WithParams(Val(AddAssertionEnv(e, Assn(ParamLeaf(Head(ps)[1]), Head(ps)[2]))), Tail(ps))
ExprEnv(f, ps) == WithParams(FnLeaf(f), ps)
AddNote(e, note) == IF note = "" THEN e ELSE AddAssertion(e, KV(KvNote), Str(note))
AddDate(e, d)    == IF d = NoDate THEN e ELSE AddAssertion(e, KV(KvDate), DateLeaf(d))
RequestEnv(f, ps, id, note, d) ==
  AddDate(AddNote(AddAssertion(Leaf(<<"reqid", id>>), KV(KvBody), ExprEnv(f, ps)), note), d)
EventEnv(content, id, note, d) ==
  AddDate(AddNote(AddAssertion(Leaf(<<"evid", id>>), KV(KvContent), content), note), d)
ResponseEnv(variant, id, payload) ==
  CASE variant = "success" -> AddAssertion(Leaf(<<"respid", id>>), KV(KvResult), payload)
    [] variant = "failure" -> AddAssertion(Leaf(<<"respid", id>>), KV(KvError), payload)
    [] variant = "early"   -> AddAssertion(Leaf(<<"respunknown", KvUnknown>>), KV(KvError), payload)

(* parsing, as the TryFrom impls do it *)
OptionalString(e, kv) ==        \* extract_optional_object_for_predicate::<String>
  LET A == AssertionsWithPredicate(e, KV(kv)) IN
  IF A = {} THEN Ok("")
  ELSE IF Cardinality(A) > 1 THEN Err("AmbiguousPredicate")
  ELSE LET o == SubjLeaf(Subject(CHOOSE a \in A : TRUE)[3]) IN
       IF IsStr(o) THEN Ok(o[2][2]) ELSE Err("not a string")
OptionalDate(e) ==
  LET A == AssertionsWithPredicate(e, KV(KvDate)) IN
  IF A = {} THEN Ok(NoDate)
  ELSE IF Cardinality(A) > 1 THEN Err("AmbiguousPredicate")
  ELSE LET o == SubjLeaf(Subject(CHOOSE a \in A : TRUE)[3]) IN
       IF IsDateLeaf(o) THEN Ok(o[2][2]) ELSE Err("not a date")
ParamsOf(body) == {<< <<Subject(a)[2][2][2], Subject(a)[2][2][3]>>, Dg(Subject(a)[3])>> :
                     a \in {x \in Assertions(body) : IsAssn(Subject(x)) /\ IsParamLeaf(Subject(x)[2])}}
(* Function equality as implemented: known functions by number, named ones by name *)
SameFunction(f, g) == f[1] = g[1] /\ f[2] = g[2]
NoFn == <<"none", 0>>
ParseExpression(e, expected) ==
  LET s == SubjLeaf(e) IN
  IF ~IsFnLeaf(s) THEN Err("not a function")
  ELSE LET f == <<s[2][2], s[2][3]>> IN
       IF expected # NoFn /\ ~SameFunction(f, expected) THEN Err("unexpected function")
       ELSE Ok(<<"expression", f, <<"set", ParamsOf(e)>>>>)
ParseRequest(e, expected) ==
  LET body == ObjectForPredicate(e, KV(KvBody)) IN
  IF ~IsOk(body) THEN body
  ELSE LET x == ParseExpression(Val(body), expected)
           note == OptionalString(e, KvNote)
           d == OptionalDate(e) IN
       IF ~IsOk(x) THEN x
       ELSE IF ~(IsLeaf(Subject(e)) /\ Subject(e)[2][1] = "reqid") THEN Err("not a request id")
       ELSE IF ~IsOk(note) THEN note
       ELSE IF ~IsOk(d) THEN d
       ELSE Ok(<<"request", Val(x)[2], Val(x)[3], Subject(e)[2][2], Val(note), Val(d)>>)
ParseEvent(e) ==
  LET c == ObjectForPredicate(e, KV(KvContent))
      note == OptionalString(e, KvNote)
      d == OptionalDate(e) IN
  IF ~IsOk(c) THEN c
  ELSE IF ~(IsLeaf(Subject(e)) /\ Subject(e)[2][1] = "evid") THEN Err("not an event id")
  ELSE IF ~IsOk(note) THEN note
  ELSE IF ~IsOk(d) THEN d
  ELSE Ok(<<"event", Dg(Val(c)), Subject(e)[2][2], Val(note), Val(d)>>)
ParseResponse(e) ==
  LET r == AssertionWithPredicate(e, KV(KvResult))
      x == AssertionWithPredicate(e, KV(KvError))
      s == Subject(e) IN
  IF IsOk(r) = IsOk(x) THEN Err("must have either a result or an error")
  ELSE IF IsOk(r)
       THEN IF IsLeaf(s) /\ s[2][1] = "respid" THEN Ok(<<"response", "success", s[2][2], Dg(Subject(Val(r))[3])>>)
            ELSE Err("not a response id")
       ELSE IF IsLeaf(s) /\ s[2][1] = "respid" THEN Ok(<<"response", "failure", s[2][2], Dg(Subject(Val(x))[3])>>)
            ELSE IF IsLeaf(s) /\ s[2][1] = "respunknown" /\ s[2][2] = KvUnknown
                 THEN Ok(<<"response", "early", 0, Dg(Subject(Val(x))[3])>>)
            ELSE Err("not a response id")
=============================================================================
