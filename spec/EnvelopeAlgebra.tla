-------------------------- MODULE EnvelopeAlgebra --------------------------
(***************************************************************************)
(* Value domain of Gordian Envelope as tagged tuples, the digest rule of   *)
(* draft-mcnally-envelope-09 section 4 as symbolic image terms, and the    *)
(* structural vocabulary (positions, elements, well-formedness) the        *)
(* properties are phrased in.  Everything here is declarative: no operator *)
(* mirrors an algorithm of the implementation.                             *)
(*                                                                         *)
(*   Env ::= <<"leaf", atom>> | <<"kv", n>> | <<"assn", P, O>>             *)
(*         | <<"node", S, {A1..An}>> | <<"wrap", E>> | <<"elided", D>>     *)
(*         | <<"enc", D, key, nonce, Plain, auth>> | <<"comp", D, Plain>>  *)
(*   D   ::= <<"H", first, restSet>> | <<"X", i>>                          *)
(*   first ::= <<"cbor", atom>> | D                                        *)
(*                                                                         *)
(* <<"H", f, R>> denotes SHA-256( bytes(f) || ascending(bytes(r) : r \in R))*)
(* The harness evaluates such a term with a rule-agnostic evaluator.       *)
(***************************************************************************)
EXTENDS Naturals, Sequences, FiniteSets, TLC

Ok(v)   == <<"ok", v>>
Err(k)  == <<"err", k>>
IsOk(r) == r[1] = "ok"
Val(r)  == r[2]

NoEnv == <<"none">>

Leaf(a)          == <<"leaf", a>>
KV(n)            == <<"kv", n>>
Assn(p, o)       == <<"assn", p, o>>
Node(s, A)       == <<"node", s, A>>
Wrap(e)          == <<"wrap", e>>
Elided(d)        == <<"elided", d>>
Enc(d, k, n, p, t) == <<"enc", d, k, n, p, t>>   \* t = "ok" | "bad" (an authenticated field was altered)
Comp(d, p, t)    == <<"comp", d, p, t>>          \* t = "ok" | "bad" (payload corrupt)

IsLeaf(e)   == e[1] = "leaf"
IsKV(e)     == e[1] = "kv"
IsAssn(e)   == e[1] = "assn"
IsNode(e)   == e[1] = "node"
IsWrap(e)   == e[1] = "wrap"
IsElided(e) == e[1] = "elided"
IsEnc(e)    == e[1] = "enc"
IsComp(e)   == e[1] = "comp"
IsObscured(e) == e[1] \in {"elided", "enc", "comp"}
IsEnv(e)    == e # NoEnv

H(first, rest) == <<"H", first, rest>>
X(i)           == <<"X", i>>          \* a 32-byte value with no modelled pre-image

(* Atoms are tagged tuples too: <<"v", name>> is an opaque leaf value the    *)
(* harness instantiates differently in every round; <<"tkv", n>> is the     *)
(* CBOR-tagged known value n; the extensions add their own (Crypto.tla).   *)
V(name) == <<"v", name>>
TagEnvelope   == 200
TagLeaf       == 201
TagLeafLegacy == 24
TagKnownValue == 40000
TagDigest     == 40001
TagEncrypted  == 40002
TagCompressed == 40003
TKV(n)  == <<"tkv", TagKnownValue, n>>

RECURSIVE Dg(_)
Dg(e) ==
  CASE e[1] = "leaf" -> H(<<"cbor", e[2]>>, {})
    [] e[1] = "kv"   -> H(<<"cbor", TKV(e[2])>>, {})
    [] e[1] = "assn" -> H(Dg(e[2]), {Dg(e[3])})
    [] e[1] = "node" -> H(Dg(e[2]), {Dg(a) : a \in e[3]})
    [] e[1] = "wrap" -> H(Dg(e[2]), {})
    [] OTHER         -> e[2]            \* elided / enc / comp: the declared digest

Subject(e)    == IF IsNode(e) THEN e[2] ELSE e
Assertions(e) == IF IsNode(e) THEN e[3] ELSE {}

RECURSIVE IsSubjAssn(_)
IsSubjAssn(e) == IF IsNode(e) THEN IsSubjAssn(e[2]) ELSE IsAssn(e)
RECURSIVE IsSubjObscured(_)
IsSubjObscured(e) == IF IsNode(e) THEN IsSubjObscured(e[2]) ELSE IsObscured(e)
AssertionLike(e) == IsSubjAssn(e) \/ IsSubjObscured(e)

(* --- elements and sizes ------------------------------------------------ *)
RECURSIVE Elements(_)
Elements(e) ==
  {e} \cup
  CASE e[1] = "node" -> Elements(e[2]) \cup UNION {Elements(a) : a \in e[3]}
    [] e[1] = "assn" -> Elements(e[2]) \cup Elements(e[3])
    [] e[1] = "wrap" -> Elements(e[2])
    [] OTHER -> {}
AllDigests(e) == {Dg(x) : x \in Elements(e)}

RECURSIVE Size(_), SumSize(_)
Size(e) ==
  CASE e[1] = "node" -> 1 + Size(e[2]) + SumSize(e[3])
    [] e[1] = "assn" -> 1 + Size(e[2]) + Size(e[3])
    [] e[1] = "wrap" -> 1 + Size(e[2])
    [] OTHER -> 1
SumSize(S) == IF S = {} THEN 0
              ELSE LET x == CHOOSE x \in S : TRUE IN Size(x) + SumSize(S \ {x})

RECURSIVE Depth(_), MaxDepthOf(_)
Depth(e) ==
  CASE e[1] = "node" -> 1 + MaxDepthOf({e[2]} \cup e[3])
    [] e[1] = "assn" -> 1 + MaxDepthOf({e[2], e[3]})
    [] e[1] = "wrap" -> 1 + Depth(e[2])
    [] OTHER -> 0
MaxDepthOf(S) == IF S = {} THEN 0
                 ELSE LET x == CHOOSE x \in S : TRUE
                          d == Depth(x)  r == MaxDepthOf(S \ {x})
                      IN IF d > r THEN d ELSE r

(* --- positions ---------------------------------------------------------*)
(* A path is a sequence of steps <<"s">>, <<"p">>, <<"o">>, <<"w">>,      *)
(* <<"a", D>> (the assertion element whose digest is D).                   *)
RECURSIVE Paths(_)
Paths(e) ==
  {<< >>} \cup
  CASE e[1] = "node" -> {<< <<"s">> >> \o q : q \in Paths(e[2])}
                        \cup UNION {{<< <<"a", Dg(a)>> >> \o q : q \in Paths(a)} : a \in e[3]}
    [] e[1] = "assn" -> {<< <<"p">> >> \o q : q \in Paths(e[2])}
                        \cup {<< <<"o">> >> \o q : q \in Paths(e[3])}
    [] e[1] = "wrap" -> {<< <<"w">> >> \o q : q \in Paths(e[2])}
    [] OTHER -> {}

RECURSIVE At(_, _)
At(e, p) ==
  IF p = << >> THEN e
  ELSE LET st == Head(p) IN
       CASE st[1] = "s" -> At(e[2], Tail(p))
         [] st[1] = "p" -> At(e[2], Tail(p))
         [] st[1] = "o" -> At(e[3], Tail(p))
         [] st[1] = "w" -> At(e[2], Tail(p))
         [] st[1] = "a" -> At(CHOOSE a \in e[3] : Dg(a) = st[2], Tail(p))

IsPrefixOf(p, q) == Len(p) <= Len(q) /\ SubSeq(q, 1, Len(p)) = p
Prefixes(p) == {SubSeq(p, 1, n) : n \in 0..Len(p)}

(* --- well-formedness (draft section 3 + the property C04) ---------------*)
RECURSIVE WellFormed(_)
WellFormed(e) ==
  CASE e[1] = "node" ->
         /\ e[3] # {}
         /\ \A a \in e[3] : AssertionLike(a) /\ WellFormed(a)
         /\ \A a, b \in e[3] : Dg(a) = Dg(b) => a = b
         /\ WellFormed(e[2])
    [] e[1] = "assn" -> WellFormed(e[2]) /\ WellFormed(e[3])
    [] e[1] = "wrap" -> WellFormed(e[2])
    [] OTHER -> TRUE

(* Obscuration pattern: the pre-order list of <<class, digest>> that        *)
(* identity (==) is defined over (C14).  Order among assertions is by real *)
(* digest and therefore not available here; the pattern is kept as a set   *)
(* of <<path, class>> pairs, which carries the same information.           *)
Class(e) == IF IsObscured(e) THEN e[1] ELSE "clear"
(* Positions are named by what identity can see: "first child" (subject, predicate, wrapped content) or
   "the other child with digest d" (an assertion, the object).  A node [X, Y] and an assertion {X: Y}
   have the same digest image (the format's one structural collision) and the same positions: with
   equal obscuration they are identical, as the property says and as the code answers. *)
NormPath(e, p) == [i \in 1..Len(p) |-> IF p[i][1] \in {"s", "p", "w"} THEN <<"c1">>
                                        ELSE <<"c2", Dg(At(e, SubSeq(p, 1, i)))>>]
Pattern(e) == {<<NormPath(e, p), Class(At(e, p)), Dg(At(e, p))>> : p \in Paths(e)}

(* Clear form: the envelope with every obscured element that carries its   *)
(* content (enc with known plaintext, comp) replaced by that content.       *)
RECURSIVE Reveal(_)
Reveal(e) ==
  CASE e[1] = "node" -> Node(Reveal(e[2]), {Reveal(a) : a \in e[3]})
    [] e[1] = "assn" -> Assn(Reveal(e[2]), Reveal(e[3]))
    [] e[1] = "wrap" -> Wrap(Reveal(e[2]))
    [] e[1] = "enc"  -> IF Dg(e[5]) = e[2] THEN Reveal(e[5]) ELSE e
    [] e[1] = "comp" -> IF Dg(e[3]) = e[2] THEN Reveal(e[3]) ELSE e
    [] OTHER -> e

(* Atoms occurring in clear (not inside ciphertext) in an envelope.  A     *)
(* compressed payload is recoverable by anyone, so it counts as clear.     *)
RECURSIVE ClearAtoms(_)
ClearAtoms(e) ==
  CASE e[1] = "leaf" -> {e[2]}
    [] e[1] = "node" -> ClearAtoms(e[2]) \cup UNION {ClearAtoms(a) : a \in e[3]}
    [] e[1] = "assn" -> ClearAtoms(e[2]) \cup ClearAtoms(e[3])
    [] e[1] = "wrap" -> ClearAtoms(e[2])
    [] e[1] = "comp" -> ClearAtoms(e[3])
    [] OTHER -> {}

(* Annotated form handed to the replayer: every element carries the digest *)
(* term the specification assigns to it.                                   *)
RECURSIVE Ann(_)
Ann(e) ==
  CASE e[1] = "leaf"   -> <<"leaf", e[2], Dg(e)>>
    [] e[1] = "kv"     -> <<"kv", e[2], Dg(e)>>
    [] e[1] = "assn"   -> <<"assn", Ann(e[2]), Ann(e[3]), Dg(e)>>
    [] e[1] = "node"   -> <<"node", Ann(e[2]), {Ann(a) : a \in e[3]}, Dg(e)>>
    [] e[1] = "wrap"   -> <<"wrap", Ann(e[2]), Dg(e)>>
    [] e[1] = "elided" -> e
    [] e[1] = "enc"    -> <<"enc", e[2], e[3], e[4], Ann(e[5]), e[6]>>
    [] e[1] = "comp"   -> <<"comp", e[2], Ann(e[3]), e[4]>>
    [] OTHER -> e
=============================================================================
