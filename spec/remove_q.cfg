CONSTANTS
  Atoms <- remove_q_Atoms
  KVs = {1}
  NReg = 2
  Keys = {"k1"}
  MaxSize = 40
  MaxT = 1
  Phases <- remove_q_Phases
  ShapeSet <- remove_q_Shapes
  Signers = {"s1", "s2"}
  Recipients = {"r1", "r2"}
  Policies <- remove_q_Policies
  CfgName = "remove_q"
INIT Init
NEXT Next
VIEW View
CONSTRAINT Bounded
ACTION_CONSTRAINT Emit
CHECK_DEADLOCK FALSE
INVARIANTS WellFormedInv
PROPERTIES C07Prop
