CONSTANTS
  Atoms <- sskr_mix3_q_Atoms
  KVs = {1}
  NReg = 3
  Keys = {"k1"}
  MaxSize = 30
  MaxT = 1
  Phases <- sskr_mix3_q_Phases
  ShapeSet <- sskr_mix3_q_Shapes
  Signers = {"s1", "s2"}
  Recipients = {"r1", "r2"}
  Policies <- sskr_mix3_q_Policies
  CfgName = "sskr_mix3_q"
INIT Init
NEXT Next
VIEW View
CONSTRAINT Bounded
ACTION_CONSTRAINT Emit
CHECK_DEADLOCK FALSE
INVARIANTS WellFormedInv
PROPERTIES C11Prop
