CONSTANTS
  Atoms <- decode_q_Atoms
  KVs = {1}
  NReg = 1
  Keys = {"k1"}
  MaxSize = 14
  MaxT = 1
  Phases <- decode_q_Phases
  ShapeSet <- decode_q_Shapes
  Signers = {"s1", "s2"}
  Recipients = {"r1", "r2"}
  Policies <- decode_q_Policies
  CfgName = "decode_q"
INIT Init
NEXT Next
VIEW View
CONSTRAINT Bounded
ACTION_CONSTRAINT Emit
CHECK_DEADLOCK FALSE
INVARIANTS WellFormedInv C05RoundTrip
PROPERTIES C06Prop
