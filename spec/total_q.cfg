CONSTANTS
  Atoms <- total_q_Atoms
  KVs = {1}
  NReg = 1
  Keys = {"k1"}
  MaxSize = 14
  MaxT = 1
  Phases <- total_q_Phases
  ShapeSet <- total_q_Shapes
  Signers = {"s1", "s2"}
  Recipients = {"r1", "r2"}
  Policies <- total_q_Policies
  CfgName = "total_q"
INIT Init
NEXT Next
VIEW View
CONSTRAINT Bounded
ACTION_CONSTRAINT Emit
CHECK_DEADLOCK FALSE
INVARIANTS WellFormedInv
PROPERTIES C02Prop C07Prop
