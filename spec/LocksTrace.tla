----------------------------- MODULE LocksTrace -----------------------------
(***************************************************************************)
(* Validation of lock events recorded from real multi-thread runs          *)
(* (harness/src/bin/locks.rs stress) against the lock semantics: the       *)
(* events, in the order the recording sink received them (acquisitions are *)
(* recorded while the lock is held, releases before it is released), must  *)
(* respect mutual exclusion and once-only initialisation, and a formatting *)
(* call that begins after a registration completed shows its names.        *)
(***************************************************************************)
EXTENDS Naturals, Sequences, FiniteSets, TLC, Json, IOUtils

LRec == ndJsonDeserialize(IOEnv.TRACE)
VARIABLES i, owner, once, regd, seen
ltv == <<i, owner, once, regd, seen>>
\* regd: a register_tags call has returned; seen[t]: regd when thread t's current call began.
\* A formatting call that begins after a registration has completed must show the registered
\* names ("end_post"); "end_pre" (the text of the unregistered state) is a stale view;
\* "end_other" is a text the call never returns when run alone.  "tags_lost": a registration made by
\* one thread was overwritten by another (a read-modify-write of the context that is not atomic).
MaxThread == 64
LocksOf == {"FC", "KV", "FN", "PARAM", "TAGS"}
Cells  == {"FC", "KV", "FN", "PARAM"}

LTInit == /\ i = 1 /\ owner = [l \in LocksOf |-> 0] /\ once = [c \in Cells |-> 0]
          /\ regd = FALSE /\ seen = [t \in 0..MaxThread |-> FALSE]
\* once[c]: 0 new, -1 done, t > 0 being initialised by thread t  (encoded with naturals: done = 100000)
Done == 100000
Ev == LRec[i]
LTNext ==
  /\ i <= Len(LRec) /\ i' = i + 1
  /\ LET t == Ev.t  k == Ev.k  l == Ev.l IN
     CASE k = "reset" -> /\ owner' = [x \in LocksOf |-> 0] /\ once' = [c \in Cells |-> 0]
                         /\ regd' = FALSE /\ seen' = [x \in 0..MaxThread |-> FALSE]
       [] k = "once_enter" -> UNCHANGED <<owner, once, regd, seen>>
       [] k = "once_run_begin" -> once[l] = 0 /\ once' = [once EXCEPT ![l] = t] /\ UNCHANGED <<owner, regd, seen>>
       [] k = "once_run_end" -> once[l] = t /\ once' = [once EXCEPT ![l] = Done] /\ UNCHANGED <<owner, regd, seen>>
       [] k = "acq" -> /\ owner[l] = 0 /\ owner' = [owner EXCEPT ![l] = t] /\ UNCHANGED <<once, regd, seen>>
                       /\ (l \in Cells => (once[l] = Done \/ once[l] = t))
       [] k = "rel" -> owner[l] = t /\ owner' = [owner EXCEPT ![l] = 0] /\ UNCHANGED <<once, regd, seen>>
       [] k = "blip" -> owner[l] # t /\ UNCHANGED <<owner, once, regd, seen>>
       [] k = "begin" -> seen' = [seen EXCEPT ![t] = regd] /\ UNCHANGED <<owner, once, regd>>
       [] k = "reg_done" -> regd' = TRUE /\ UNCHANGED <<owner, once, seen>>
       [] k = "end_pre" -> ~seen[t] /\ UNCHANGED <<owner, once, regd, seen>>
       [] k \in {"end_post", "end_any"} -> UNCHANGED <<owner, once, regd, seen>>
       [] k = "end_other" -> FALSE
       \* after all threads have finished: what applications registered in the context is still there
       [] k = "tags_kept" -> UNCHANGED <<owner, once, regd, seen>>
       [] k = "tags_lost" -> FALSE
LTSpec == LTInit /\ [][LTNext]_ltv
LTAccepted ==
  LET d == TLCGet("stats").diameter IN
  IF d - 1 = Len(LRec) THEN TRUE
  ELSE PrintT(<<"LOCKTRACE-REJECTED", "event", d, "of", Len(LRec), ToJson(LRec[d])>>) /\ FALSE
=============================================================================
