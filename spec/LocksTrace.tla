----------------------------- MODULE LocksTrace -----------------------------
(***************************************************************************)
(* Validation of lock events recorded from real multi-thread runs          *)
(* (harness/src/bin/locks.rs stress) against the lock semantics: the       *)
(* events, in the order the recording sink received them (acquisitions are *)
(* recorded while the lock is held, releases before it is released), must  *)
(* respect mutual exclusion and once-only initialisation.                  *)
(***************************************************************************)
EXTENDS Naturals, Sequences, FiniteSets, TLC, Json, IOUtils

LRec == ndJsonDeserialize(IOEnv.TRACE)
VARIABLES i, owner, once
ltv == <<i, owner, once>>
LocksOf == {"FC", "KV", "FN", "PARAM", "TAGS"}
Cells  == {"FC", "KV", "FN", "PARAM"}

LTInit == i = 1 /\ owner = [l \in LocksOf |-> 0] /\ once = [c \in Cells |-> 0]
\* once[c]: 0 new, -1 done, t > 0 being initialised by thread t  (encoded with naturals: done = 100000)
Done == 100000
Ev == LRec[i]
LTNext ==
  /\ i <= Len(LRec) /\ i' = i + 1
  /\ LET t == Ev.t  k == Ev.k  l == Ev.l IN
     CASE k = "reset" -> owner' = [x \in LocksOf |-> 0] /\ once' = [c \in Cells |-> 0]
       [] k = "once_enter" -> UNCHANGED <<owner, once>>
       [] k = "once_run_begin" -> once[l] = 0 /\ once' = [once EXCEPT ![l] = t] /\ UNCHANGED owner
       [] k = "once_run_end" -> once[l] = t /\ once' = [once EXCEPT ![l] = Done] /\ UNCHANGED owner
       [] k = "acq" -> /\ owner[l] = 0 /\ owner' = [owner EXCEPT ![l] = t] /\ UNCHANGED once
                       /\ (l \in Cells => (once[l] = Done \/ once[l] = t))
       [] k = "rel" -> owner[l] = t /\ owner' = [owner EXCEPT ![l] = 0] /\ UNCHANGED once
       [] k = "blip" -> owner[l] # t /\ UNCHANGED <<owner, once>>
LTSpec == LTInit /\ [][LTNext]_ltv
LTAccepted ==
  LET d == TLCGet("stats").diameter IN
  IF d - 1 = Len(LRec) THEN TRUE
  ELSE PrintT(<<"LOCKTRACE-REJECTED", "event", d, "of", Len(LRec), ToJson(LRec[d])>>) /\ FALSE
=============================================================================
