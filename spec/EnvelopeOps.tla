---------------------------- MODULE EnvelopeOps ----------------------------
(***************************************************************************)
(* Operational level: one operator per public function of the base API,    *)
(* its body mirroring the algorithm of the Rust function it stands for     *)
(* (file and line references are to /repo/src at the pinned commit).       *)
(* Operators that can fail return Ok(env) or Err(kind).                    *)
(***************************************************************************)
EXTENDS EnvelopeAlgebra

(* ---- assertions.rs ------------------------------------------------------*)
(* add_optional_assertion_envelope(Some(a))  assertions.rs:106-129 *)
AddAssertionEnv(e, a) ==
  IF ~AssertionLike(a) THEN Err("InvalidFormat")
  ELSE IF IsNode(e)
       THEN IF \E x \in e[3] : Dg(x) = Dg(a) THEN Ok(e)
            ELSE Ok(Node(e[2], e[3] \cup {a}))
       ELSE Ok(Node(e, {a}))

(* add_assertion(p, o): new_assertion then the above; cannot fail *)
AddAssertion(e, p, o) == Val(AddAssertionEnv(e, Assn(p, o)))

(* remove_assertion  assertions.rs:527-541: first assertion with the target's digest *)
RemoveAssertion(e, t) ==
  LET hit == {a \in Assertions(e) : Dg(a) = Dg(t)} IN
  IF hit = {} THEN e
  ELSE LET rest == Assertions(e) \ hit IN
       IF rest = {} THEN Subject(e) ELSE Node(Subject(e), rest)

(* replace_assertion = remove then add *)
ReplaceAssertion(e, old, new) == AddAssertionEnv(RemoveAssertion(e, old), new)

(* replace_subject: fold add_assertion_envelope of the old assertions over the
   new subject (so a node subject merges and dedupes).  The fold order is the
   stored (digest) order; the result does not depend on it because adding is
   commutative up to dedupe-by-digest, which TLC checks (FoldOrderIrrelevant). *)
RECURSIVE FoldAdd(_, _)
FoldAdd(e, A) ==
  IF A = {} THEN e
  ELSE LET a == CHOOSE a \in A : TRUE IN FoldAdd(Val(AddAssertionEnv(e, a)), A \ {a})
ReplaceSubject(e, s) == FoldAdd(s, Assertions(e))

(* ---- wrap.rs -------------------------------------------------------------*)
WrapEnvelope(e) == Wrap(e)
UnwrapEnvelope(e) == IF IsWrap(Subject(e)) THEN Ok(Subject(e)[2]) ELSE Err("NotWrapped")

(* ---- elide.rs ------------------------------------------------------------*)
ElideOne(e) == IF IsElided(e) THEN e ELSE Elided(Dg(e))

(* compress()  compress.rs:93-104 *)
CompressOne(e) ==
  CASE IsComp(e)   -> Ok(e)
    [] IsEnc(e)    -> Err("AlreadyEncrypted")
    [] IsElided(e) -> Err("AlreadyElided")
    [] OTHER       -> Ok(Comp(Dg(e), e, "ok"))

(* One obscuring step at a targeted element.  act is <<"elide">>,
   <<"encrypt", key, callId>> or <<"compress">>.  Encrypt encrypts whatever
   the case is; the nonce is fresh per element: <<callId, path>>.
   Compress on an element that cannot be compressed (already elided or
   encrypted) leaves it as it is (elide.rs; see DESIGN 6-D7c). *)
ObscureOne(e, act, path) ==
  CASE act[1] = "elide"    -> ElideOne(e)
    [] act[1] = "encrypt"  -> Enc(Dg(e), act[2], <<act[3], path>>, e, "ok")
    [] act[1] = "compress" -> LET r == CompressOne(e) IN IF IsOk(r) THEN Val(r) ELSE e

(* elide_set_with_action  elide.rs:306-341 *)
RECURSIVE ObscureSet(_, _, _, _, _)
ObscureSet(e, T, rev, act, path) ==
  IF (Dg(e) \in T) # rev THEN ObscureOne(e, act, path)
  ELSE CASE e[1] = "assn" -> Assn(ObscureSet(e[2], T, rev, act, Append(path, <<"p">>)),
                                  ObscureSet(e[3], T, rev, act, Append(path, <<"o">>)))
         [] e[1] = "node" -> Node(ObscureSet(e[2], T, rev, act, Append(path, <<"s">>)),
                                  {ObscureSet(a, T, rev, act, Append(path, <<"a", Dg(a)>>)) : a \in e[3]})
         [] e[1] = "wrap" -> Wrap(ObscureSet(e[2], T, rev, act, Append(path, <<"w">>)))
         [] OTHER -> e

(* unelide: on any receiver  elide.rs:438-445 *)
Unelide(e, x) == IF Dg(e) = Dg(x) THEN Ok(x) ELSE Err("InvalidDigest")

(* ---- compress.rs -----------------------------------------------------------*)
Uncompress(e) ==
  IF ~IsComp(e) THEN Err("NotCompressed")
  ELSE IF e[4] # "ok" THEN Err("corrupt")
  ELSE IF Dg(e[3]) # e[2] THEN Err("InvalidDigest")
  ELSE Ok(e[3])

CompressSubject(e) ==
  IF IsComp(Subject(e)) THEN Ok(e)
  ELSE LET r == CompressOne(Subject(e)) IN
       IF IsOk(r) THEN Ok(ReplaceSubject(e, Val(r))) ELSE r

(* uncompress_subject: the node is rebuilt over the inflated subject with the
   same assertions (after fix D6; the pinned code went through replace_subject,
   which merges when the inflated subject is itself a node). *)
UncompressSubject(e) ==
  IF IsComp(Subject(e))
  THEN LET r == Uncompress(Subject(e)) IN
       IF IsOk(r) THEN (IF IsNode(e) THEN Ok(Node(Val(r), e[3])) ELSE r) ELSE r
  ELSE Ok(e)
(* what the pinned code did (kept for the record and for the D6 regression config) *)
UncompressSubjectViaReplace(e) ==
  IF IsComp(Subject(e))
  THEN LET r == Uncompress(Subject(e)) IN
       IF IsOk(r) THEN Ok(ReplaceSubject(e, Val(r))) ELSE r
  ELSE Ok(e)

(* ---- encrypt.rs ---------------------------------------------------------------*)
(* encrypt_subject  encrypt.rs:113-186 *)
EncryptSubject(e, k, n) ==
  IF IsNode(e)
  THEN IF IsEnc(e[2]) THEN Err("AlreadyEncrypted")
       ELSE Ok(Node(Enc(Dg(e[2]), k, n, e[2], "ok"), e[3]))
  ELSE CASE IsEnc(e)    -> Err("AlreadyEncrypted")
         [] IsElided(e) -> Err("AlreadyElided")
         [] OTHER       -> Ok(Enc(Dg(e), k, n, e, "ok"))

(* decrypt_subject  encrypt.rs:211-239 *)
DecryptSubject(e, k) ==
  LET s == Subject(e) IN
  IF ~IsEnc(s) THEN Err("NotEncrypted")
  ELSE IF s[3] # k \/ s[6] # "ok" THEN Err("crypto")
  ELSE IF Dg(s[5]) # s[2] THEN Err("InvalidDigest")
  ELSE IF IsNode(e) THEN Ok(Node(s[5], e[3])) ELSE Ok(s[5])

Encrypt(e, k, n) == Val(EncryptSubject(Wrap(e), k, n))
Decrypt(e, k) ==
  LET r == DecryptSubject(e, k) IN IF IsOk(r) THEN UnwrapEnvelope(Val(r)) ELSE r

(* ---- accessors (queries.rs) -----------------------------------------------------*)
AsPredicate(e) == IF IsAssn(e) THEN Ok(e[2]) ELSE Err("NotAssertion")
AsObject(e)    == IF IsAssn(e) THEN Ok(e[3]) ELSE Err("NotAssertion")
=============================================================================
