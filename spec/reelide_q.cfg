CONSTANTS
  Atoms <- reelide_q_Atoms
  KVs = {1}
  NReg = 1
  Keys = {"k1"}
  MaxSize = 12
  MaxT = 3
  Phases <- reelide_q_Phases
  ShapeSet <- reelide_q_Shapes
  Signers = {"s1", "s2"}
  Recipients = {"r1", "r2"}
  Policies <- reelide_q_Policies
  CfgName = "reelide_q"
INIT Init
NEXT Next
VIEW View
CONSTRAINT Bounded
ACTION_CONSTRAINT Emit
CHECK_DEADLOCK FALSE
INVARIANTS WellFormedInv DeclaredDigestHonest RevealKeepsDigest
PROPERTIES C02Prop C03Prop C07Prop
