#!/bin/bash
# run checks in the thorough tier (timing / robustness survey; not evidence).  CHECKS="C12 C13" selects some.
for c in ${CHECKS:-C01 C02 C03 C04 C05 C06 C07 C08 C09 C10 C11 C12 C13 C14 C15 C16 C17 C18 C19 C20}; do
  s=$(date +%s); ./check $c --tier thorough > /tmp/thorough_$c.log 2>&1; rc=$?; e=$(date +%s)
  echo "$c rc=$rc $((e-s))s $(grep -v KNOWN /tmp/thorough_$c.log | tail -1 | cut -c1-200)"
done
