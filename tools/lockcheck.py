"""C20 driver: extract the lock programs of the current build from the hooks, let TLC explore every
interleaving of them (spec/Locks.tla), stress the real code with racing threads and validate the recorded
lock events with TLC (spec/LocksTrace.tla)."""
import json, os, re, shutil, subprocess, time

CODE = {"once_enter": "oe", "once_run_end": "od", "acq": "aq", "rel": "rl", "blip": "bl"}


def program(events):
    """first-use event list -> flat instruction program.

    The hooks report once_run_end inside the initialiser closure; guards the closure still holds are
    dropped after that, and only then does call_once mark the cell complete. The "od" instruction is
    therefore placed after the releases of the locks acquired inside the initialiser."""
    ins = []
    stack = []   # open frames: [index of oe, set of locks held, ending?]

    def close_ready():
        while stack and stack[-1][2] and not stack[-1][1]:
            j, _held, _e = stack.pop()
            ins.append(["od", ins[j][1]])
            ins[j][2] = len(ins) - 1 - j - 1   # instructions of the body, excluding the od

    for (_t, _s, k, l) in events:
        if k == "once_enter":
            ins.append(["oe", l, None])
            stack.append([len(ins) - 1, set(), False])
        elif k == "once_run_begin":
            pass
        elif k == "once_run_end":
            # the frame of cell l is the innermost one not yet ending
            for fr in reversed(stack):
                if ins[fr[0]][1] == l and not fr[2]:
                    fr[2] = True
                    break
            close_ready()
        else:
            ins.append([CODE[k], l])
            if k == "acq":
                for fr in reversed(stack):
                    if not fr[2]:
                        fr[1].add(l)
                        break
                else:
                    pass
            elif k == "rel":
                for fr in reversed(stack):
                    if l in fr[1]:
                        fr[1].discard(l)
                        break
                close_ready()
        # a once_enter not followed by its body (cell already initialised): no frame to keep
        if k != "once_enter" and stack and not stack[-1][2] and ins[stack[-1][0]][2] is None and k != "once_run_begin":
            # instructions are being appended although the body never began -> the gate was passed without running
            pass
    # frames whose body never ran (cell was initialised before): empty body
    res = []
    for x in ins:
        res.append(x)
    for fr in stack:
        if ins[fr[0]][2] is None:
            ins[fr[0]][2] = 0
    for x in ins:
        if x[0] == "oe" and x[2] is None:
            x[2] = 0
    return ins


def tla(ins):
    def one(x):
        return "<<" + ", ".join(('"%s"' % y) if isinstance(y, str) else str(y) for y in x) + ">>"
    return "<< " + ", ".join(one(x) for x in ins) + " >>"


def run_tlc(cwd, cfg, module, workers, timeout, env=None):
    md = os.path.join(cwd, "md_" + cfg.replace(".cfg", ""))
    shutil.rmtree(md, ignore_errors=True)
    q = subprocess.run(["timeout", str(timeout), "tlc", "-workers", str(workers), "-metadir", md, "-cleanup", "-noGenerateSpecTE",
                        "-config", cfg, module], cwd=cwd, env=env, stdout=subprocess.PIPE, stderr=subprocess.STDOUT, text=True)
    shutil.rmtree(md, ignore_errors=True)
    return q.returncode, q.stdout


def run(run, outdir, seed, tier, BIN, SPEC):
    outdir = os.path.abspath(outdir)
    os.makedirs(outdir, exist_ok=True)
    info = {"generated": 0, "distinct": 0, "finished": False, "errors": [], "depth": None}
    fails, counts = [], {}
    # 1. extraction
    progs = os.path.join(outdir, "programs.json")
    p = subprocess.run([os.path.join(BIN, "locks"), "extract", "--out", progs], stdout=subprocess.PIPE, stderr=subprocess.STDOUT, text=True)
    if p.returncode != 0:
        info["errors"].append("lock program extraction failed: " + p.stdout[-600:])
        return info, None
    P = json.load(open(progs))
    # a call that does not even complete when run alone in a fresh process
    for k in sorted(P):
        if "failed" in P[k]:
            why = P[k]["failed"]
            key = "locks:alone:%s:%s" % (k, "deadlock" if why == "TIMEOUT" else "panic")
            counts[key] = 1
            fails.append({"kind": "alone", "op": k, "key": key, "round": 0, "seed": seed,
                          "detail": "call %s run alone in a fresh process %s" % (k, "did not complete within 30 s (deadlock)" if why == "TIMEOUT" else "failed: " + why[:400]), "trace": []})
    P = {k: v for k, v in P.items() if "failed" not in v}
    kinds = sorted(P)
    programs = {k: program(P[k]["first"]) for k in kinds}
    # Every Once gate gets the initialiser of its cell, also where the extraction run found the cell
    # initialised already (the gate then showed no body): bodies are taken from the runs that executed them.
    bodies = {}
    for k in kinds:
        pr = programs[k]
        for j, x in enumerate(pr):
            if x[0] == "oe" and x[2] > 0:
                bodies.setdefault(x[1], pr[j + 1:j + 1 + x[2]])

    def expand(pr):
        out, j = [], 0
        while j < len(pr):
            x = pr[j]
            if x[0] == "oe":
                has_od = x[2] > 0 or (j + 1 < len(pr) and pr[j + 1] == ["od", x[1]])
                body = expand(pr[j + 1:j + 1 + x[2]]) if x[2] > 0 else expand(bodies.get(x[1], []))
                out.append(["oe", x[1], len(body)])
                out.extend(body)
                out.append(["od", x[1]])
                j += x[2] + (2 if has_od else 1)
            else:
                out.append(x)
                j += 1
        return out
    programs = {k: expand(programs[k]) for k in kinds}
    # a later call must be the first-use program with every initialiser skipped
    extra_kinds = []
    for k in kinds:
        later = [[CODE[e[2]], e[3]] for e in P[k]["later"] if e[2] in CODE]
        first = programs[k]
        skipped, j = [], 0
        while j < len(first):
            x = first[j]
            if x[0] == "oe":
                skipped.append(["oe", x[1]])
                j += x[2] + 2
            else:
                skipped.append(x[:2])
                j += 1
        if skipped != [x[:2] for x in later]:
            # a call whose later uses are not its first use minus the initialisers (state kept per thread, a
            # cache, ...): both programs are given to the model as call kinds of their own - an
            # over-approximation that the unchanged tree does not need
            lk = k + "#later"
            programs[lk] = expand(program(P[k]["later"]))
            extra_kinds.append(lk)
    # 2. TLC on the extracted programs
    work = os.path.join(outdir, "tlc")
    shutil.rmtree(work, ignore_errors=True)
    os.makedirs(work)
    shutil.copy(os.path.join(SPEC, "Locks.tla"), work)
    # call kinds with identical lock programs are interchangeable for the model: keep one of each
    seen, group = {}, []
    kinds = kinds + extra_kinds
    for k in (run.get("kinds") or kinds):
        key = json.dumps(programs[k])
        if key not in seen:
            seen[key] = k
            group.append(k)
    with open(os.path.join(work, "MC_Locks.tla"), "w") as f:
        f.write("---- MODULE MC_Locks ----\nEXTENDS Locks\n")
        f.write("Programs == [k \\in {%s} |->\n  CASE " % ", ".join('"%s"' % k for k in kinds))
        f.write("\n    [] ".join('k = "%s" -> %s' % (k, tla(programs[k])) for k in kinds))
        f.write("]\nKindSet == {%s}\nThreadSet == 1..%d\n====\n" % (", ".join('"%s"' % k for k in group), run.get("threads", 3)))
    with open(os.path.join(work, "MC_Locks.cfg"), "w") as f:
        f.write("CONSTANTS\n  Threads <- ThreadSet\n  MaxCalls = %d\n  Kinds <- KindSet\n  Prog <- Programs\n" % run.get("calls", 2))
        f.write("INIT LInit\nNEXT LNext\nCHECK_DEADLOCK TRUE\nINVARIANTS NoLockHeldWhenIdle OnceAtMostOnce InitBeforeUse\n")
    t0 = time.time()
    rc, out = run_tlc(work, "MC_Locks.cfg", "MC_Locks.tla", run.get("workers", 8), run.get("timeout", 1500))
    open(os.path.join(outdir, "tlc_locks.log"), "w").write(out)
    m = re.search(r"(\d+) states generated, (\d+) distinct states found", out)
    if m:
        info["generated"], info["distinct"] = int(m.group(1)), int(m.group(2))
    if "No error has been found" in out:
        info["finished"] = True
    elif "Deadlock reached" in out or "is violated" in out:
        info["finished"] = True
        what = "deadlock" if "Deadlock reached" in out else "invariant"
        key = "locks:model:%s" % what
        counts[key] = 1
        tail = out[out.find("Error:"):][:3000]
        fails.append({"kind": "model", "op": "locks", "key": key, "round": 0, "seed": seed,
                      "detail": "TLC found a %s in the interleavings of the lock programs extracted from this build" % what, "trace": tail.splitlines()})
    else:
        info["errors"].append("TLC on lock programs: " + out[-1200:])
    # liveness on a smaller instance (no state constraint, weak fairness)
    if run.get("liveness", True) and not fails and not info["errors"]:
        with open(os.path.join(work, "MC_Live.cfg"), "w") as f:
            f.write("CONSTANTS\n  Threads <- ThreadSet\n  MaxCalls = 1\n  Kinds <- KindSet\n  Prog <- Programs\n")
            f.write("SPECIFICATION LSpec\nCHECK_DEADLOCK TRUE\nPROPERTY Termination\n")
        rc2, out2 = run_tlc(work, "MC_Live.cfg", "MC_Locks.tla", run.get("workers", 8), run.get("timeout", 1500))
        open(os.path.join(outdir, "tlc_live.log"), "w").write(out2)
        if "No error has been found" not in out2:
            if "violated" in out2 or "Deadlock" in out2:
                counts["locks:model:liveness"] = 1
                fails.append({"kind": "model", "op": "locks", "key": "locks:model:liveness", "round": 0, "seed": seed,
                              "detail": "some call never completes under fair scheduling", "trace": out2[out2.find("Error:"):][:3000].splitlines()})
            else:
                info["errors"].append("TLC liveness: " + out2[-800:])
    # 3. stress run of the real code + validation of the recorded events
    stress = os.path.join(outdir, "stress.json")
    p = subprocess.run([os.path.join(BIN, "locks"), "stress", "--threads", str(run.get("stress_threads", 16)), "--rounds", str(run.get("rounds", 40)),
                        "--calls", str(run.get("stress_calls", 3)), "--seed", str(seed), "--out", stress, "--ref", progs],
                       stdout=subprocess.PIPE, stderr=subprocess.STDOUT, text=True)
    if p.returncode != 0:
        info["errors"].append("stress run failed: " + p.stdout[-600:])
        return info, None
    S = json.load(open(stress))
    for pr in S["problems"]:
        key = "locks:stress:" + ("deadlock" if "did not complete" in pr["what"] else "panic" if "panick" in pr["what"] else "text")
        counts[key] = counts.get(key, 0) + 1
        if len([f for f in fails if f["key"] == key]) < 2:
            fails.append({"kind": "stress", "op": "locks", "key": key, "round": pr["round"], "seed": pr["seed"], "detail": json.dumps(pr)[:800], "trace": [pr]})
    tr = os.path.join(outdir, "locktrace.ndjson")
    nev = 0
    with open(tr, "w") as f:
        for lg in S["logs"]:
            f.write(json.dumps({"t": 0, "s": 0, "k": "reset", "l": "FC"}) + "\n")
            for (t, s, k, l) in lg["events"]:
                f.write(json.dumps({"t": t, "s": s, "k": k, "l": l}) + "\n")
                nev += 1
    shutil.copy(os.path.join(SPEC, "LocksTrace.tla"), work)
    shutil.copy(os.path.join(SPEC, "LocksTrace.cfg"), work)
    env = dict(os.environ, TRACE=tr, JAVA_TOOL_OPTIONS="-Xss1g -Dtlc2.tool.queue.IStateQueue=StateDeque")
    rc3, out3 = run_tlc(work, "LocksTrace.cfg", "LocksTrace.tla", 1, run.get("timeout", 1500), env)
    open(os.path.join(outdir, "tlc_locktrace.log"), "w").write(out3)
    if "LOCKTRACE-REJECTED" in out3:
        counts["locks:trace"] = 1
        m3 = re.search(r'"LOCKTRACE-REJECTED", "event", (\d+)', out3)
        fails.append({"kind": "trace", "op": "locks", "key": "locks:trace", "round": 0, "seed": seed,
                      "detail": "recorded event %s violates mutual exclusion / once-only initialisation / visibility of a completed registration: %s" % (m3.group(1) if m3 else "?", out3[out3.find("LOCKTRACE-REJECTED"):][:400]), "trace": []})
    elif "No error has been found" not in out3:
        info["errors"].append("TLC lock trace validation: " + out3[-800:])
    rep = {"behaviours": S["rounds"], "evaluations": S["calls"], "rounds": 1, "seed": seed,
           "distinct_nontrivial": len({json.dumps(programs[k]) for k in kinds}) + len(S["logs"]),
           "per_op": {k: 1 for k in kinds}, "per_out": {}, "failure_counts": counts, "failures": fails, "tool_errors": 0,
           "samples": [{"lock_program": {"format": programs.get("format")}}, {"kv_lookup": programs.get("kv_lookup")}],
           "extra": {"call_kinds": kinds, "distinct_lock_programs": group, "tlc_threads": run.get("threads", 3), "tlc_calls_per_thread": run.get("calls", 2),
                     "stress_rounds": S["rounds"], "stress_calls": S["calls"], "lock_events_validated": nev, "tlc_wall_s": round(time.time() - t0, 1)}}
    return info, rep
