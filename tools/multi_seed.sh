#!/bin/bash
# robustness survey: every quick check under several seeds (not evidence)
for s in ${SEEDS:-2 3 4}; do
  for c in C01 C02 C03 C04 C05 C06 C07 C08 C09 C10 C11 C12 C13 C14 C15 C16 C17 C18 C19 C20; do
    b=$(date +%s); VERIF_SEED=$s ./check $c > /tmp/ms_$c_$s.log 2>&1; rc=$?; e=$(date +%s)
    echo "seed=$s $c rc=$rc $((e-b))s $(grep -v KNOWN /tmp/ms_$c_$s.log | grep -v '^C.. tier' | head -2 | cut -c1-300)"
  done
done
