HOOKS = {
    "guard": "bc_envelope_verif",
    "enable": "RUSTFLAGS --cfg bc_envelope_verif (set in harness/.cargo/config.toml); no hook is compiled into /repo yet",
    "baseline_off_cmd": "cd /repo && cargo test --workspace --no-fail-fast --offline",
    "source_commits": [],
    "add_only": True,
}
NOTES = ("All checks share one TLA+ specification (spec/) and one Rust harness (harness/). "
         "fix: commits in /repo: 0d9037c (HashSet order, C07), 5aff6e1 (Compress action panic, C16), cb2b1dd (lookup panics, C16), b2b4509 (uncompress_subject digest, C13), 1afb877 + 0386197 (decoder strictness, C06). "
         "See DESIGN.md and known_findings.json.")
TB = ("Trusted: TLC, the term evaluator (SHA-256 via sha2, CBOR writer, sort), bc-components/dcbor primitives; "
      "bounds: small universes in TLC (2 registers, 2-3 atoms, depth 3-4, shapes <= 5-7 elements) widened by typed concretisation rounds.")
T = "TLC model checking of an explicit TLA+ specification + replay of every explored transition against the real crate"
META = {
    "C01": dict(text="TLC enumerates every call sequence / input shape within the bounds of the TLA+ machine; each explored transition is replayed against the real crate and the digest of every element of the result is compared with SHA-256 evaluated from the specification's digest term, under several typed instantiations of the leaf values.", note=TB, technique=T),
    "C02": dict(text="TLC enumerates shapes x target subsets x modes x actions (and a second obscuring step); the specification's recursion is checked position by position against the real elide_*/encrypt/compress results, digest bytes included.", note=TB, technique=T),
    "C03": dict(text="Same transitions as C02; the expected tree states exactly which positions are obscured and the serialized bytes must equal the evaluated wire term, so any residue or over/under-elision is a disagreement; unelide is exercised on every register pair.", note=TB, technique=T),
    "C04": dict(text="TLC checks WellFormed as an invariant of the machine with all mutating families enabled; the replayer compares the serialized bytes of every result with the specification's wire term, whose node arrays are sorted by the real digest bytes (strictly ascending, duplicate free, correct arity/tags/lengths).", note=TB, technique=T),
    "C05": dict(text="Every envelope reachable in the bounded machine is encoded and decoded (bytes / CBOR / UR variants); the decoded projection must be the source's abstract value and re-encode to the same bytes; leaf types come from a typed pool with independently written expected dCBOR.", note=TB, technique=T),
    "C07": dict(text="All insertion orders and repetitions within the bounds are executed; the specification's node is a set keyed by digest, so any order/route dependence of the real result shows as a digest or byte disagreement; source registers are compared bit for bit after every call.", note=TB, technique=T),
}
META.update({
    "C08": dict(text="The AEAD is symbolic in the specification (opens iff same key, nothing authenticated altered); TLC checks encrypt/decrypt identity, wrong-key failure and refusal of double encryption as laws over every reachable register, and every transition (incl. forged content/digest pairs and tampered fields produced with the real primitives) is replayed against the crate.", note=TB, technique=T),
    "C13": dict(text="TLC checks compress/uncompress identity, idempotence and digest preservation as laws over every reachable register and every chain within the bounds, with forged and corrupted containers built from the real DEFLATE primitive replayed against the crate.", note=TB, technique=T),
    "C14": dict(text="Equivalence/identity are defined declaratively (digest equality; equality of the obscuration pattern); TLC checks that the operational structural image is injective on patterns, and every ordered pair of registers is compared through is_equivalent_to, is_identical_to, == and structural_digest (image evaluated by SHA-256).", note=TB, technique=T),
    "C15": dict(text="The walks, digest sets, lookups and typed extraction are specified as recursive operators; for every shape and obscured variant in the bounds the real visitor sequence (digest, level, edge, parent), digest sets for every level limit, lookup answers/errors and extracted values are compared with the specification.", note=TB + " Two open findings in the dcbor dependency (D9a, D9b) are reported as KNOWN-FINDING.", technique=T),
    "C16": dict(text="Every specification action is total (ok or err); every replayed call runs under catch_unwind and a panic is never an allowed outcome; inputs include decorated assertions, node-subject nodes and all obscuration patterns within the bounds.", note=TB + " Stack exhaustion on unbounded nesting is out of scope (the property bounds the depth).", technique=T),
})
META["C06"] = dict(text="The decoder of draft section 3 is written as a total function on symbolic wire terms; TLC checks that whatever it accepts re-encodes to the input (modulo the #6.24 alias) and that encode->decode is the identity on every reachable envelope; every single (thorough: double) structural mutation of valid encodings is evaluated to bytes and given to the real decoder under catch_unwind, whose verdict and result must be the specification's.", note=TB + " Byte-level (non structural) mutations are covered by the trace direction (see DESIGN).", technique=T)
NOT_YET = {}
