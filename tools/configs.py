"""Bounded instances of the specification. gen_cfgs.py turns this table into
spec/MC.tla (named constant definitions + Next) and spec/<name>.cfg."""

ALLMUT = ["construct", "assertions", "navigate", "wrap", "elide", "compress", "encrypt", "codec"]

def cfg(name, phases, atoms=("a1", "a2"), kvs=(1,), nreg=2, keys=("k1",), maxsize=7, maxt=2, shapes="{}",
        inv=("WellFormedInv", "DeclaredDigestHonest", "RevealKeepsDigest"),
        props=("C02Prop", "C03Prop", "C07Prop"), module="MC", **kw):
    d = dict(name=name, phases=phases, atoms=atoms, kvs=kvs, nreg=nreg, keys=keys, maxsize=maxsize, maxt=maxt,
             shapes=shapes, inv=inv, props=props, module=module)
    d.update(kw)
    return d


def policies(max_groups, max_members):
    """All SSKR policies <<gt, <<<<m1,n1>>,...>>>> with <= max_groups groups of <= max_members members."""
    import itertools
    gs = [(m, n) for n in range(1, max_members + 1) for m in range(1, n + 1)]
    out = []
    for k in range(1, max_groups + 1):
        for combo in itertools.product(gs, repeat=k):
            for gt in range(1, k + 1):
                out.append("<<%d, <<%s>>>>" % (gt, ", ".join("<<%d, %d>>" % g for g in combo)))
    return "{" + ", ".join(out) + "}"

B3 = '{Leaf(V("a1")), Leaf(V("a2")), KV(1)}'
B2 = '{Leaf(V("a1")), KV(1)}'
B1 = '{Leaf(V("a1"))}'

CONFIGS = [
    # every mutating family, from empty registers
    cfg("core_all3", [ALLMUT] * 3),
    cfg("core_t", [["construct", "assertions", "navigate", "wrap"]] * 4, inv=("WellFormedInv", "DeclaredDigestHonest", "RevealKeepsDigest", "C07Laws")),
    cfg("core_q", [["construct", "assertions", "navigate", "wrap"]] * 4, atoms=("a1",), inv=("WellFormedInv", "DeclaredDigestHonest", "RevealKeepsDigest", "C07Laws")),
    # obscuring: all shapes x target subsets x modes x actions (+ a second obscuring call)
    cfg("obscure_q", [["build"], ["elide", "compress", "encrypt"]], nreg=1, maxsize=12, maxt=3,
        shapes="ShUpTo(%s, 5) \\cup NodeSubjectNodes(%s, 9)" % (B3, B2)),
    cfg("obscure_q2", [["build"], ["elide", "compress", "encrypt"], ["elide", "compress", "encrypt"]], nreg=1, maxsize=12, maxt=2,
        shapes="ShUpTo(%s, 4)" % B3),
    # progressive redaction: a second elision on what the first one left (nodes with already hidden parts)
    cfg("reelide_q", [["build"], ["elide", "compress", "encrypt"], ["elide", "compress", "encrypt"]], nreg=1, maxsize=12, maxt=3,
        shapes="{e \\in ShUpTo(%s, 5) : IsNode(e)} \\cup NodeSubjectNodes(%s, 9) \\cup Decorated(%s) \\cup Nodes2(%s)" % (B2, B1, B1, B1)),
    # un-eliding with every pair of registers (a receiver that is not a bare placeholder; digests that differ)
    cfg("unelide_q", [["build"], ["build", "elideone"], ["elide"], ["elide"]], nreg=2, maxsize=9, maxt=1,
        shapes="ShUpTo(%s, 3) \\cup {e \\in Sh(%s, 5) : IsNode(e)}" % (B2, B1)),
    # symmetric encryption with a key-holding adversary (C08)
    cfg("encrypt_q", [["build"], ["build", "encrypt", "elideset"], ["forge", "tamper", "addassertion", "encrypt"], ["decrypt"]],
        keys=("k1", "k2"), maxsize=9, maxt=1, inv=("WellFormedInv", "C08Laws"), props=("C02Prop", "C08Prop", "C07Prop"), shapes="ShUpTo(%s, 3) \\cup {e \\in Sh(%s, 5) : IsNode(e)} \\cup NodeSubjectNodes({Leaf(V(\"a1\"))}, 9) \\cup Decorated({Leaf(V(\"a1\"))})" % (B2, B1)),
    cfg("encrypt_t", [["build"], ["build", "encrypt", "elideset"], ["forge", "tamper", "addassertion", "encrypt"], ["decrypt"]],
        keys=("k1", "k2"), maxsize=9, maxt=1, inv=("WellFormedInv", "C08Laws"), props=("C02Prop", "C08Prop", "C07Prop"), shapes="ShUpTo(%s, 4) \\cup {e \\in ShUpTo(%s, 5) : IsNode(e)}" % (B2, B2)),
    # compression with corrupt / mis-declared payloads (C13)
    cfg("compress_q", [["build"], ["build", "compress", "elideset"], ["compress", "forge", "tamper", "addassertion"], ["compress", "uncompress"]],
        maxsize=9, maxt=1, inv=("WellFormedInv", "C13Laws"), props=("C02Prop", "C13Prop", "C07Prop"),
        shapes="ShUpTo(%s, 3) \\cup {e \\in Sh(%s, 5) : IsNode(e)} \\cup NodeSubjectNodes({Leaf(V(\"a1\"))}, 9) \\cup Decorated({Leaf(V(\"a1\"))})" % (B2, B1)),
    cfg("compress_t", [["build"], ["build", "compress", "elideset"], ["compress", "forge", "tamper", "addassertion"], ["compress", "uncompress"]],
        maxsize=9, maxt=1, inv=("WellFormedInv", "C13Laws"), props=("C02Prop", "C13Prop", "C07Prop"),
        shapes="ShUpTo(%s, 4) \\cup {e \\in ShUpTo(%s, 5) : IsNode(e)}" % (B2, B2)),
    # a forged / tampered / corrupted element used as the SUBJECT of a node, then opened (C08, C13)
    cfg("forge_q", [["build"], ["build", "encrypt", "compressone"], ["forge", "tamper"], ["addassertion"], ["decrypt", "uncompress"]],
        atoms=("a1",), keys=("k1",), maxsize=9, maxt=1, inv=("WellFormedInv",), props=("C08Prop", "C13Prop", "C07Prop"),
        shapes="{Leaf(V(\"a1\")), KV(1), Wrap(KV(1)), Node(KV(1), {Assn(KV(1), KV(1))})}"),
    # comparison of an envelope with its obscured variants, copies and unrelated ones (C14)
    cfg("compare_q", [["build"], ["build", "elide", "compress", "encrypt", "codec"], ["elide", "compress", "encrypt", "codec", "compare"], ["compare"]],
        maxsize=9, maxt=2, inv=("WellFormedInv", "DeclaredDigestHonest", "C14Laws"), props=("C02Prop", "C14Prop", "C07Prop"),
        shapes="ShUpTo(%s, 3) \\cup {e \\in ShUpTo(%s, 5) : IsNode(e)} \\cup NodeSubjectNodes({Leaf(V(\"a1\"))}, 9) \\cup Decorated({Leaf(V(\"a1\"))})" % (B2, B2)),
    # traversal and queries on every shape and its obscured variants (C15)
    cfg("query_q", [["build"], ["elideset", "compressone", "observe"], ["observe"]], nreg=1, maxsize=14, maxt=2,
        inv=("WellFormedInv", "DeclaredDigestHonest", "RevealKeepsDigest", "C15Laws"),
        shapes="ShUpTo(%s, 5) \\cup NodeSubjectNodes(%s, 9) \\cup Decorated(%s) \\cup DeepDecorated(%s) \\cup Nodes3(%s) \\cup WrapNodes(%s)" % (B3, B2, B2, B2, B2, B2)),
    # the decoder on every single structural mutation of valid encodings (C06)
    cfg("decode_q", [["build"], ["elideset", "compressone", "decodewire", "codec"], ["decodewire", "codec"]], nreg=1, maxsize=14, maxt=1,
        inv=("WellFormedInv", "C05RoundTrip"), props=("C06Prop",),
        shapes="ShUpTo(%s, 5) \\cup NodeSubjectNodes(%s, 9) \\cup Decorated(%s) \\cup Nodes2(%s) \\cup Nodes3(%s) \\cup TkvShapes \\cup BstrShapes \\cup DeepDecorated(%s)" % (B3, B2, B1, B2, B2, B1)),
    cfg("decode_t", [["build"], ["elideset", "compressone", "decodewire", "codec"], ["decodewire2", "codec"]], nreg=1, maxsize=12, maxt=1,
        inv=("WellFormedInv", "C05RoundTrip"), props=("C06Prop",),
        shapes="ShUpTo(%s, 4) \\cup {e \\in Sh(%s, 5) : IsNode(e)} \\cup Nodes2(%s) \\cup TkvShapes" % (B2, B2, B1)),
    # signatures: sign, decorate / obscure / forge, verify (C09)
    cfg("sig_q", [["build"], ["signature"], ["signature", "forgesigned", "elideset", "addassertion", "decorate"], ["verify"]],
        atoms=("a1",), nreg=1, maxsize=30, maxt=1, inv=("WellFormedInv",), props=("C09Prop",),
        shapes="ShUpTo(%s, 2) \\cup {e \\in Sh(%s, 5) : IsNode(e)} \\cup NodeSubjectNodes(%s, 9)" % (B1, B1, B1)),
    # removal / replacement in larger nodes and in nodes whose subject is a node (C07, C01)
    cfg("remove_q", [["build"], ["pickassertion"], ["removereplace"], ["removereplace", "codec"]],
        atoms=("a1", "a2"), nreg=2, maxsize=40, maxt=1, inv=("WellFormedInv",), props=("C07Prop",),
        shapes="{e \\in Nodes4(%s) : e[2] = Leaf(V(\"a1\"))} \\cup {e \\in Nodes5(%s) : e[2] = KV(1)} \\cup NodeSubjectNodes(%s, 9) \\cup Decorated({Leaf(V(\"a1\"))})" % (B3, B3, B1)),
    cfg("sig_q2", [["build"], ["signature"], ["elideset", "compressone"], ["signature"], ["verify"]],
        atoms=("a1",), nreg=1, maxsize=40, maxt=1, inv=("WellFormedInv",), props=("C09Prop",),
        shapes="ShUpTo(%s, 2) \\cup NodeSubjectNodes(%s, 9)" % (B1, B1)),
    # three signers: key lists of length 3 in every order x thresholds (order must not matter)
    cfg("sig_q3", [["build"], ["signature"], ["signature"], ["verify"]], signers=("s1", "s2", "s3"),
        atoms=("a1",), nreg=1, maxsize=40, maxt=1, inv=("WellFormedInv",), props=("C09Prop",),
        shapes="{Leaf(V(\"a1\")), Wrap(Leaf(V(\"a1\")))}"),
    cfg("sig_t", [["build"], ["signature"], ["signature", "forgesigned", "elideset", "compressone", "addassertion", "decorate", "wrap"],
                  ["signature", "elideset", "uncompress", "codec"], ["verify"]],
        atoms=("a1",), nreg=1, maxsize=40, maxt=1, inv=("WellFormedInv",), props=("C09Prop",),
        shapes="ShUpTo(%s, 2) \\cup {e \\in Sh(%s, 5) : IsNode(e)} \\cup NodeSubjectNodes(%s, 9)" % (B1, B1, B1)),
    # recipients and seal (C10)
    cfg("recipient_q", [["build"], ["recipient_enc"], ["recipient_add", "addassertion", "recipient_dec", "decorate", "elideset"], ["recipient_dec"]],
        atoms=("a1",), nreg=1, maxsize=30, maxt=1, inv=("WellFormedInv",), props=("C10Prop",),
        shapes="ShUpTo(%s, 3) \\cup {e \\in Sh(%s, 5) : IsNode(e)} \\cup NodeSubjectNodes({Leaf(V(\"a1\"))}, 9) \\cup Decorated({Leaf(V(\"a1\"))})" % (B1, B1)),
    # obscuring before encrypting to recipients: a node whose subject is already compressed / elided, or with hidden assertions (R7C10-m2)
    cfg("recipient_q2", [["build"], ["elideset", "compress"], ["recipient_enc"], ["recipient_dec"]],
        atoms=("a1",), nreg=1, maxsize=30, maxt=1, inv=("WellFormedInv",), props=("C10Prop",),
        shapes="ShUpTo(%s, 2) \\cup {e \\in Sh(%s, 5) : IsNode(e)} \\cup NodeSubjectNodes({Leaf(V(\"a1\"))}, 9)" % (B1, B1)),
    cfg("recipient_t", [["build"], ["recipient_enc"], ["recipient_add", "addassertion", "recipient_dec", "decorate", "elideset"],
                        ["recipient_add", "recipient_dec", "elideset", "codec"], ["recipient_dec"]],
        atoms=("a1",), nreg=1, maxsize=40, maxt=1, inv=("WellFormedInv",), props=("C10Prop",),
        shapes="ShUpTo(%s, 3) \\cup {e \\in Sh(%s, 5) : IsNode(e)} \\cup NodeSubjectNodes({Leaf(V(\"a1\"))}, 9) \\cup Decorated({Leaf(V(\"a1\"))})" % (B1, B1)),
    # SSKR: every policy x every subset of the shares; shares of two splits mixed (C11)
    cfg("sskr_q", [["build"], ["encrypt"], ["sskr_splitjoin"]],
        atoms=("a1",), nreg=1, maxsize=30, maxt=1, inv=("WellFormedInv",), props=("C11Prop",), policies=policies(2, 3),
        shapes="ShUpTo(%s, 2) \\cup {e \\in Sh(%s, 5) : IsNode(e)} \\cup NodeSubjectNodes({Leaf(V(\"a1\"))}, 9) \\cup Decorated({Leaf(V(\"a1\"))})" % (B1, B1)),
    cfg("sskr_mix_q", [["build"], ["encrypt"], ["sskr_pick"], ["sskr_pick", "encrypt", "decorate"], ["sskr_join"]],
        atoms=("a1",), nreg=2, keys=("k1", "k2"), maxsize=30, maxt=1, inv=("WellFormedInv",), props=("C11Prop",),
        policies="{<<1, <<<<2, 2>>>>>>, <<1, <<<<1, 2>>>>>>, <<2, <<<<1, 1>>, <<1, 1>>>>>>}",
        shapes="{Leaf(V(\"a1\"))}"),
    # three registers: shares of two splits presented in every order, also interleaved
    cfg("sskr_mix3_q", [["build"], ["encrypt"], ["sskr_pick"], ["sskr_pick"], ["sskr_pick"], ["sskr_join"]],
        atoms=("a1",), nreg=3, keys=("k1",), maxsize=30, maxt=1, inv=("WellFormedInv",), props=("C11Prop",),
        policies="{<<1, <<<<2, 2>>>>>>}",
        shapes="{Leaf(V(\"a1\"))}"),
    # inclusion proofs (C12)
    cfg("proof_q", [["build"], ["build", "proof", "compressone"], ["proof", "elideset"], ["confirm"]],
        nreg=2, maxsize=12, maxt=2, inv=("WellFormedInv",), props=("C12Prop",),
        shapes="ShUpTo(%s, 3) \\cup {e \\in Sh(%s, 5) : IsNode(e)} \\cup Nodes2(%s) \\cup WrapNodes(%s) \\cup NodeSubjectNodes({Leaf(V(\"a1\"))}, 9) \\cup Decorated({Leaf(V(\"a1\"))})" % (B2, B2, B1, B1)),
    # types and attachments (C19)
    cfg("attach_q", [["build"], ["build", "types", "attach", "badattach"], ["types", "attach", "badattach", "decorate", "elideset"], ["obs_types", "obs_attach"]],
        atoms=("a1",), nreg=2, maxsize=30, maxt=1, inv=("WellFormedInv",), props=("C19Prop",),
        shapes="ShUpTo(%s, 2) \\cup {e \\in Sh(%s, 5) : IsNode(e)} \\cup NodeSubjectNodes({Leaf(V(\"a1\"))}, 9) \\cup Decorated({Leaf(V(\"a1\"))})" % (B1, B1)),
    # salt: structure (C17, direction A)
    cfg("salt_q", [["build"], ["salt"], ["salt", "lookup"]],
        atoms=("a1",), nreg=2, maxsize=30, maxt=1, inv=("WellFormedInv",), props=("C17Prop",),
        shapes="ShUpTo(%s, 3) \\cup {e \\in Sh(%s, 5) : IsNode(e)} \\cup NodeSubjectNodes({Leaf(V(\"a1\"))}, 9) \\cup Decorated({Leaf(V(\"a1\"))}) \\cup {Elided(Dg(Assn(Leaf(V(\"a1\")), KV(1)))), Node(Leaf(V(\"a1\")), {Elided(Dg(Assn(KV(1), Leaf(V(\"a1\")))))})}" % (B2, B1)),
    # totality: every transform on decorated / partially obscured shapes (C16)
    cfg("total_q", [["build"], ["elideset", "compressone"], ["assertions", "compress", "encrypt", "navigate", "wrap", "lookup", "salt", "elideone"]],
        atoms=("a1",), nreg=1, maxsize=14, maxt=1, inv=("WellFormedInv",), props=("C02Prop", "C07Prop"),
        shapes="Decorated(%s) \\cup TwinDecorated(%s) \\cup DeepDecorated(%s) \\cup NodeSubjectNodes(%s, 9) \\cup {e \\in Sh(%s, 5) : IsNode(e)}" % (B1, B2, B1, B1, B2)),
    # whole-envelope obscuring calls on decorated / twin-decorated / node-subject shapes (C02)
    cfg("obscure_q3", [["build"], ["elideset", "compress", "encrypt", "elideone"], ["compress", "encrypt", "assertions"]],
        atoms=("a1",), nreg=1, maxsize=16, maxt=1, props=("C02Prop", "C03Prop", "C07Prop"),
        shapes="Decorated(%s) \\cup TwinDecorated(%s) \\cup NodeSubjectNodes(%s, 9) \\cup MultiPos(%s)" % (B1, B2, B1, B2)),
    # expressions, requests, responses, events (C18)
    cfg("expr_q", [["build"], ["expr_build"], ["malform", "obs_parse", "codec"], ["obs_parse"]],
        atoms=("a1",), nreg=1, maxsize=30, maxt=1, inv=("WellFormedInv",), props=("C18Prop",),
        shapes="{Leaf(V(\"a1\")), KV(1), Wrap(Leaf(V(\"a1\")))} \\cup {e \\in Sh(%s, 5) : IsNode(e)} \\cup {Elided(H(<<\"cbor\", V(\"a1\")>>, {})), Assn(KV(1), Leaf(V(\"a1\")))} \\cup NodeSubjectNodes({Leaf(V(\"a1\"))}, 9) \\cup Decorated({Leaf(V(\"a1\"))})" % (B1,)),
    # deep random histories (TLC simulation mode): every family at every step
    cfg("deep_s", [ALLMUT + ["salt", "signature", "types", "lookup"]] * 10, nreg=2, maxsize=14, maxt=1,
        inv=("WellFormedInv",), props=("C02Prop", "C03Prop", "C07Prop", "C13Prop", "C08Prop")),
    # the same with every family of the machine enabled at every step (extensions, adversary, observations)
    cfg("deep_x", [ALLMUT + ["salt", "signature", "forgesigned", "verify", "recipient_enc", "recipient_add", "recipient_dec",
                             "sskr_pick", "sskr_join", "proof", "confirm", "types", "obs_types", "attach", "badattach", "obs_attach",
                             "decorate", "forge", "tamper", "observe_nx", "compare", "lookup", "expr_build", "malform", "obs_parse", "decodewire"]] * 10, nreg=3, keys=("k1", "k2"), maxsize=16, maxt=1,
        policies="{<<1, <<<<1, 2>>>>>>, <<1, <<<<2, 2>>>>>>}",
        inv=("WellFormedInv",), props=("C02Prop", "C03Prop", "C07Prop", "C13Prop", "C08Prop", "C09Prop", "C10Prop", "C11Prop", "C12Prop", "C14Prop", "C17Prop", "C18Prop", "C19Prop", "C06Prop")),
    # thorough-tier instances
    cfg("obscure_t", [["build"], ["elide", "compress", "encrypt"], ["elide", "compress", "encrypt"]], nreg=1, maxsize=14, maxt=2,
        shapes="{e \\in ShUpTo(%s, 5) : IsNode(e)} \\cup NodeSubjectNodes(%s, 9) \\cup Decorated(%s) \\cup Nodes2(%s) \\cup WrapNodes(%s)" % (B3, B2, B2, B2, B2)),
    cfg("sskr_t", [["build"], ["encrypt"], ["sskr_splitjoin"]],
        atoms=("a1",), nreg=1, maxsize=30, maxt=1, inv=("WellFormedInv",), props=("C11Prop",), policies=policies(3, 3),
        shapes="{Leaf(V(\"a1\"))} \\cup {e \\in Sh(%s, 5) : IsNode(e)}" % (B1,)),
    cfg("query_t", [["build"], ["elideset", "compressone", "encrypt"], ["elideset", "observe"], ["observe"]], nreg=1, maxsize=14, maxt=2,
        inv=("WellFormedInv", "DeclaredDigestHonest", "RevealKeepsDigest", "C15Laws"),
        shapes="ShUpTo(%s, 5) \\cup NodeSubjectNodes(%s, 9) \\cup Decorated(%s) \\cup DeepDecorated(%s) \\cup Nodes2(%s) \\cup Nodes3(%s)" % (B3, B2, B2, B2, B2, B2)),
    cfg("compare_t", [["build"], ["build", "elide", "compress", "encrypt", "codec"], ["elide", "compress", "encrypt", "codec", "compare"], ["compare"]],
        maxsize=9, maxt=2, inv=("WellFormedInv", "DeclaredDigestHonest", "C14Laws"), props=("C02Prop", "C14Prop", "C07Prop"),
        shapes="ShUpTo(%s, 5) \\cup NodeSubjectNodes({Leaf(V(\"a1\"))}, 9) \\cup Decorated({Leaf(V(\"a1\"))}) \\cup Nodes2(%s)" % (B2, B1)),
    cfg("expr_t", [["build"], ["expr_build"], ["malform", "elideset", "compressone"], ["malform", "codec", "obs_parse"], ["obs_parse"]],
        atoms=("a1",), nreg=1, maxsize=30, maxt=1, inv=("WellFormedInv",), props=("C18Prop",),
        shapes="{Leaf(V(\"a1\")), KV(1), Wrap(Leaf(V(\"a1\")))}"),
    cfg("attach_t", [["build"], ["types", "attach", "badattach"], ["types", "attach", "badattach", "decorate", "elideset", "compressone"],
                     ["elideset", "codec", "attach"], ["obs_types", "obs_attach"]],
        atoms=("a1",), nreg=1, maxsize=40, maxt=1, inv=("WellFormedInv",), props=("C19Prop",),
        shapes="{Leaf(V(\"a1\")), Wrap(Leaf(V(\"a1\")))} \\cup {e \\in Sh(%s, 5) : IsNode(e)}" % (B1,)),
    cfg("proof_t", [["build"], ["build", "proof"], ["proof", "elideset"], ["confirm"]],
        nreg=2, maxsize=12, maxt=2, inv=("WellFormedInv",), props=("C12Prop",),
        shapes="ShUpTo(%s, 3) \\cup {e \\in Sh(%s, 5) : IsNode(e)} \\cup Nodes2(%s) \\cup WrapNodes(%s) \\cup NodeSubjectNodes({Leaf(V(\"a1\"))}, 9) \\cup Decorated({Leaf(V(\"a1\"))})" % (B2, B2, B2, B1)),
    # an assertion and its obscured twin
    cfg("twin_q", [["build"], ["navigate"], ["elideone", "compressone", "navigate"], ["assertions"]], maxsize=9, maxt=1,
        shapes="{e \\in ShUpTo(%s, 5) : IsNode(e)}" % B2),
]
