"""Bounded instances of the specification. gen_cfgs.py turns this table into
spec/MC.tla (named constant definitions + Next) and spec/<name>.cfg."""

ALLMUT = ["construct", "assertions", "navigate", "wrap", "elide", "compress", "encrypt", "codec"]

def cfg(name, phases, atoms=("a1", "a2"), kvs=(1,), nreg=2, keys=("k1",), maxsize=7, maxt=2, shapes="{}",
        inv=("WellFormedInv", "DeclaredDigestHonest", "RevealKeepsDigest"),
        props=("C02Prop", "C03Prop", "C07Prop"), module="MC"):
    return dict(name=name, phases=phases, atoms=atoms, kvs=kvs, nreg=nreg, keys=keys, maxsize=maxsize, maxt=maxt,
                shapes=shapes, inv=inv, props=props, module=module)

B3 = '{Leaf(V("a1")), Leaf(V("a2")), KV(1)}'
B2 = '{Leaf(V("a1")), KV(1)}'

CONFIGS = [
    # every mutating family, from empty registers
    cfg("core_all3", [ALLMUT] * 3),
    cfg("core_q", [["construct", "assertions", "navigate", "wrap"]] * 4, inv=("WellFormedInv", "DeclaredDigestHonest", "RevealKeepsDigest", "C07Laws")),
    # obscuring: all shapes x target subsets x modes x actions (+ a second obscuring call)
    cfg("obscure_q", [["build"], ["elide", "compress", "encrypt"]], nreg=1, maxsize=12, maxt=3,
        shapes="ShUpTo(%s, 5) \\cup NodeSubjectNodes(%s, 9)" % (B3, B2)),
    cfg("obscure_q2", [["build"], ["elide", "compress", "encrypt"], ["elide", "compress", "encrypt"]], nreg=1, maxsize=12, maxt=2,
        shapes="ShUpTo(%s, 4)" % B3),
    # an assertion and its obscured twin
    cfg("twin_q", [["build"], ["navigate"], ["elideone", "compressone", "navigate"], ["assertions"]], maxsize=9, maxt=1,
        shapes="{e \\in ShUpTo(%s, 5) : IsNode(e)}" % B2),
]
