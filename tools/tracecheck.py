"""Direction B driver: record traces from the real library, validate them with TLC against spec/Trace.tla."""
import json, os, re, subprocess, time, shutil


def run(run, outdir, seed, tier, BIN, SPEC):
    outdir = os.path.abspath(outdir)
    os.makedirs(outdir, exist_ok=True)
    trace = os.path.join(outdir, "trace.ndjson")
    args = [os.path.join(BIN, "tracegen"), "--seed", str(seed), "--out", trace] + [str(x) for x in run.get("gen_args", [])]
    p = subprocess.run(args, stdout=subprocess.PIPE, stderr=subprocess.STDOUT, text=True)
    info = {"generated": 0, "distinct": 0, "finished": False, "errors": [], "depth": None}
    if p.returncode != 0:
        info["errors"].append("tracegen failed: " + p.stdout[-800:])
        return info, None
    gen = json.loads(p.stdout.strip().splitlines()[-1])
    events = [json.loads(l) for l in open(trace)]
    lines = open(trace).read().splitlines()
    # Traces are independent (each starts with a reset; decode_bytes events touch no state), so the
    # recording is cut at those boundaries and the pieces are validated by parallel TLC runs.
    target = int(run.get("chunk", 2500))
    cuts = [0]
    for i in range(1, len(events)):
        boundary = events[i]["op"] == "reset" or (events[i]["op"] == "decode_bytes" and events[i - 1]["op"] == "decode_bytes")
        if boundary and i - cuts[-1] >= target:
            cuts.append(i)
    cuts.append(len(events))
    t0 = time.time()
    deadline = t0 + run.get("timeout", 1500)

    def validate(k):
        lo, hi = cuts[k], cuts[k + 1]
        part = os.path.join(outdir, "part%03d.ndjson" % k)
        open(part, "w").write("\n".join(lines[lo:hi]) + "\n")
        md = os.path.join(outdir, "md%03d" % k)
        shutil.rmtree(md, ignore_errors=True)
        env = dict(os.environ, TRACE=part, JAVA_TOOL_OPTIONS="-Xss1g -Xmx3g -Dtlc2.tool.queue.IStateQueue=StateDeque")
        left = max(30, int(deadline - time.time()))
        q = subprocess.run(["timeout", str(left), "tlc", "-workers", "1", "-metadir", md, "-cleanup", "-noGenerateSpecTE",
                            "-config", "Trace.cfg", "Trace.tla"], cwd=SPEC, env=env, stdout=subprocess.PIPE, stderr=subprocess.STDOUT, text=True)
        shutil.rmtree(md, ignore_errors=True)
        os.remove(part)
        return k, q.stdout

    from concurrent.futures import ThreadPoolExecutor
    with ThreadPoolExecutor(max_workers=int(run.get("parallel", 8))) as ex:
        outs = sorted(ex.map(validate, range(len(cuts) - 1)))
    open(os.path.join(outdir, "tlc.log"), "w").write("\n".join("==== part %d (events %d..%d)\n%s" % (k, cuts[k] + 1, cuts[k + 1], o) for k, o in outs))
    fails, counts = [], {}
    rej_idx, rej_op = None, None
    info["finished"] = True
    for k, out in outs:
        m = re.search(r"(\d+) states generated, (\d+) distinct states found", out)
        if m:
            info["generated"] += int(m.group(1))
            info["distinct"] += int(m.group(2))
        rej = re.search(r'"TRACE-REJECTED", "event", (\d+), "of", (\d+), "([a-z_]+)"', out)
        if rej:
            if rej_idx is None:
                rej_idx, rej_op = cuts[k] + int(rej.group(1)), rej.group(3)
        elif "Model checking completed. No error has been found." not in out:
            info["finished"] = False
            info["errors"].append("TLC trace validation failed to run (part %d): %s" % (k, out[-1500:]))
    if rej_idx is not None:
        idx, op = rej_idx, rej_op
        # the trace this event belongs to, up to and including it
        start = max([i for i in range(idx) if events[i]["op"] == "reset"] or [0])
        key = "trace:%s" % op
        counts[key] = 1
        fails.append({"kind": "trace", "op": op, "key": key, "round": 0, "seed": seed,
                      "detail": "recorded event %d (%s) is not a step the specification allows: %s" % (idx, op, json.dumps(events[idx - 1])[:600]),
                      "trace": events[start:idx]})
    per_op = {}
    for e in events:
        per_op[e["op"]] = per_op.get(e["op"], 0) + 1
    consumed = (rej_idx - 1) if rej_idx is not None else len(events)
    samples = [events[i] for i in range(min(len(events), 40)) if events[i]["op"] not in ("reset", "new")][:3]
    rep = {"behaviours": gen["traces"], "evaluations": consumed, "rounds": 1, "seed": seed,
           "distinct_nontrivial": len({json.dumps(e["res"]) for e in events[:consumed] if e["out"] == "ok" and len(json.dumps(e["res"])) > 40}),
           "per_op": per_op, "per_out": {}, "failure_counts": counts, "failures": fails, "tool_errors": 0,
           "samples": [{"trace_events": samples}],
           "extra": {"events_recorded": len(events), "events_validated": consumed, "tlc_wall_s": round(time.time() - t0, 1), "tlc_runs": len(cuts) - 1}}
    return info, rep
