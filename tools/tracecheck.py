"""Direction B driver: record traces from the real library, validate them with TLC against spec/Trace.tla."""
import json, os, re, subprocess, time, shutil


def run(run, outdir, seed, tier, BIN, SPEC):
    outdir = os.path.abspath(outdir)
    os.makedirs(outdir, exist_ok=True)
    trace = os.path.join(outdir, "trace.ndjson")
    args = [os.path.join(BIN, "tracegen"), "--seed", str(seed), "--out", trace] + [str(x) for x in run.get("gen_args", [])]
    p = subprocess.run(args, stdout=subprocess.PIPE, stderr=subprocess.STDOUT, text=True)
    info = {"generated": 0, "distinct": 0, "finished": False, "errors": [], "depth": None}
    if p.returncode != 0:
        info["errors"].append("tracegen failed: " + p.stdout[-800:])
        return info, None
    gen = json.loads(p.stdout.strip().splitlines()[-1])
    md = os.path.join(outdir, "md")
    shutil.rmtree(md, ignore_errors=True)
    env = dict(os.environ, TRACE=trace, JAVA_TOOL_OPTIONS="-Xss1g -Dtlc2.tool.queue.IStateQueue=StateDeque")
    t0 = time.time()
    q = subprocess.run(["timeout", str(run.get("timeout", 1500)), "tlc", "-workers", "1", "-metadir", md, "-cleanup", "-noGenerateSpecTE",
                        "-config", "Trace.cfg", "Trace.tla"], cwd=SPEC, env=env, stdout=subprocess.PIPE, stderr=subprocess.STDOUT, text=True)
    shutil.rmtree(md, ignore_errors=True)
    out = q.stdout
    open(os.path.join(outdir, "tlc.log"), "w").write(out)
    m = re.search(r"(\d+) states generated, (\d+) distinct states found", out)
    if m:
        info["generated"], info["distinct"] = int(m.group(1)), int(m.group(2))
    fails, counts = [], {}
    rej = re.search(r'"TRACE-REJECTED", "event", (\d+), "of", (\d+), "([a-z_]+)"', out)
    events = [json.loads(l) for l in open(trace)]
    if rej:
        idx = int(rej.group(1))
        op = rej.group(3)
        # the trace this event belongs to, up to and including it
        start = max(i for i in range(idx) if events[i]["op"] == "reset")
        key = "trace:%s" % op
        counts[key] = 1
        fails.append({"kind": "trace", "op": op, "key": key, "round": 0, "seed": seed,
                      "detail": "recorded event %d (%s) is not a step the specification allows: %s" % (idx, op, json.dumps(events[idx - 1])[:600]),
                      "trace": events[start:idx]})
        info["finished"] = True
    elif "Model checking completed. No error has been found." in out:
        info["finished"] = True
    else:
        info["errors"].append("TLC trace validation failed to run: " + out[-1500:])
    per_op = {}
    for e in events:
        per_op[e["op"]] = per_op.get(e["op"], 0) + 1
    consumed = (int(rej.group(1)) - 1) if rej else len(events)
    samples = [events[i] for i in range(min(len(events), 40)) if events[i]["op"] not in ("reset", "new")][:3]
    rep = {"behaviours": gen["traces"], "evaluations": consumed, "rounds": 1, "seed": seed,
           "distinct_nontrivial": len({json.dumps(e["res"]) for e in events[:consumed] if e["out"] == "ok" and len(json.dumps(e["res"])) > 40}),
           "per_op": per_op, "per_out": {}, "failure_counts": counts, "failures": fails, "tool_errors": 0,
           "samples": [{"trace_events": samples}],
           "extra": {"events_recorded": len(events), "events_validated": consumed, "tlc_wall_s": round(time.time() - t0, 1)}}
    return info, rep
