#!/usr/bin/env python3
"""Generate MANIFEST.json from tools/plan.py and tools/manifest_meta.py."""
import json, os, sys
ROOT = os.path.dirname(os.path.dirname(os.path.abspath(__file__)))
sys.path.insert(0, os.path.join(ROOT, "tools"))
import plan, manifest_meta as mm

props = [json.loads(l) for l in open(os.path.join(ROOT, "properties.jsonl"))]
checks, na = [], []
for p in props:
    pid = p["id"]
    if pid in plan.PLAN and pid in mm.META:
        m = mm.META[pid]
        c = {
            "property_id": pid,
            "quick_cmd": "./check %s --tier quick" % pid,
            "evidence_file": "evidence/%s.json" % pid,
            "replay_cmd_template": "./check %s --replay {path}" % pid,
            "engine": "tlc+replay",
            "level_claimed": {"category": "model_checking", "text": m["text"], "design_ref": m.get("design_ref", "DESIGN.md section 4")},
            "level_note": m["note"],
            "technique": m["technique"],
        }
        if "thorough" in plan.PLAN[pid]:
            c["thorough_cmd"] = "./check %s --tier thorough" % pid
        checks.append(c)
    else:
        na.append({"property_id": pid, "reason": mm.NOT_YET.get(pid, "check not built yet in this round; planned per DESIGN.md section 4")})
man = {
    "version": 1,
    "setup_cmd": "cd harness && cargo build --release --offline",
    "hooks": mm.HOOKS,
    "engines": [
        {"name": "tlc+replay", "path": "check", "serves_properties": [c["property_id"] for c in checks],
         "kind_free_text": "TLA+ specification (spec/*.tla) model-checked by TLC; every explored transition is streamed as a JSON behaviour into harness/src/bin/replay.rs, which executes it against the real crate and compares digests, structure and bytes with the specification's terms"},
    ],
    "checks": checks,
    "not_applicable": na,
    "notes": mm.NOTES,
}
json.dump(man, open(os.path.join(ROOT, "MANIFEST.json"), "w"), indent=1)
print("checks:", [c["property_id"] for c in checks], "not_applicable:", [x["property_id"] for x in na])
