"""Which bounded instances of the specification decide which property.

Each run: name, module, cfg (in spec/), rounds (concretisation rounds of the
replayer), optional simulate ("num=N") + depth, expect_ops / expect_out
(vacuity guards: the run is a tool error if one of them was never exercised).
"""

COMMON_ASSUMPTIONS = [
    "TLC 1.8 and the CommunityModules Json module are correct",
    "the harness term evaluator (sha2 SHA-256, hand-written CBOR writer, byte-wise sort) is correct; it is anchored to the digest test vectors of draft-mcnally-envelope-09 section 4 at start-up",
    "bc-components / bc-crypto / dcbor primitives (AEAD, DEFLATE, signatures, KEM, Shamir, dCBOR parsing) are trusted; how bc-envelope uses them is under test",
    "symbolic cryptography: no forgery, no digest collision; leaf CBOR never equals a concatenation of digests (A-img)",
    "bc_envelope::register_tags() is called once before any UR or formatting call (documented precondition)",
]


def R(name, cfg, module="MC", rounds=2, **kw):
    d = dict(name=name, module=module, cfg=cfg, rounds=rounds)
    d.update(kw)
    return d


CORE_ALL3 = R("core_all3", "core_all3.cfg",
              expect_ops=["new", "add_assertion", "add_assertion_envelope", "remove_assertion", "replace_subject",
                          "wrap", "unwrap", "elide", "elide_set", "compress", "encrypt_subject", "decrypt_subject",
                          "encode_decode"])
CORE_Q = R("core_q", "core_q.cfg", expect_ops=["add_assertion_po", "replace_assertion", "assertion_with_digest"])
CORE_T = R("core_t", "core_t.cfg", rounds=3)
OBS_Q = R("obscure_q", "obscure_q.cfg", expect_ops=["build", "elide_set", "compress", "encrypt"])
OBS_Q2 = R("obscure_q2", "obscure_q2.cfg", expect_ops=["build", "elide_set", "unelide"])

TWIN_Q = R("twin_q", "twin_q.cfg", expect_ops=["build", "assertion_with_digest", "elide", "compress", "add_assertions", "add_assertion_envelope", "remove_assertion"])

QUERY_Q = R("query_q", "query_q.cfg", expect_ops=["obs_structure", "obs_walk", "obs_digests", "obs_lookup", "obs_extract"])
COMPARE_Q = R("compare_q", "compare_q.cfg", expect_ops=["obs_compare", "encode_decode", "elide_set"])
COMPRESS_Q = R("compress_q", "compress_q.cfg", expect_ops=["compress", "uncompress", "compress_subject", "uncompress_subject", "forge_compressed", "corrupt"],
               expect_out=["uncompress:err", "uncompress:ok", "uncompress_subject:ok"])
ENCRYPT_Q = R("encrypt_q", "encrypt_q.cfg", expect_ops=["encrypt_subject", "decrypt_subject", "encrypt", "decrypt", "forge_encrypted", "tamper"],
              expect_out=["decrypt_subject:err", "decrypt_subject:ok", "decrypt:ok", "encrypt_subject:err"])

DECODE_Q = R("decode_q", "decode_q.cfg", expect_ops=["decode_wire", "encode_decode"], expect_out=["decode_wire:ok", "decode_wire:err"])
DECODE_T = R("decode_t", "decode_t.cfg", expect_ops=["decode_wire"], timeout=3000)

PLAN = {
    "C01": dict(
        rule="every transition TLC explores in the bounded machine (all call sequences up to the depth bound over the listed action families, 2 registers, atoms a1,a2 + known value 1, plus every clear shape of <= 5 elements as input to the obscuring calls) is executed against the real library in several concretisation rounds (atoms -> typed values of every leaf CBOR type); the digest of the result and of every element of it must equal SHA-256 evaluated from the specification's digest term. non-trivial = distinct (call, expected result) pairs whose result has >= 2 elements or is an error",
        quick=[CORE_ALL3, OBS_Q],
        thorough=[CORE_ALL3, CORE_T, OBS_Q, OBS_Q2],
    ),
    "C02": dict(
        rule="every shape of <= 5 elements x every target subset (<= 3 digests incl. an absent one) x both modes x {elide, encrypt, compress} and the whole-envelope calls, then a second obscuring call on the result; digests at every surviving position compared with the specification's terms",
        quick=[OBS_Q, OBS_Q2],
    ),
    "C03": dict(
        rule="as C02; the expected tree says exactly which positions are hidden, the serialized bytes must equal the evaluated wire term (no residue), unelide with every register pair",
        quick=[OBS_Q, OBS_Q2],
    ),
    "C04": dict(
        rule="all mutating action families from the empty register file, depth <= 3 (all families) and <= 4 (construct/assertions/wrap); serialized bytes of every result must equal the evaluated wire term whose node arrays are sorted by the real digest bytes",
        quick=[CORE_ALL3, TWIN_Q],
        thorough=[CORE_ALL3, CORE_T, TWIN_Q],
    ),
    "C05": dict(
        rule="encode->decode (bytes, CBOR value and UR string variants) of every envelope reachable in the bounded machine; decoded projection identical and re-encoding byte-identical",
        quick=[CORE_ALL3, DECODE_Q],
    ),
    "C07": dict(
        rule="all insertion sequences of the bounded machine; results compared with the order-free (set based) specification term, byte for byte",
        quick=[CORE_Q, TWIN_Q],
        thorough=[CORE_T, CORE_ALL3, TWIN_Q],
    ),
    "C08": dict(
        rule="every shape (<= 4 elements, nodes of 5) x keys {k1,k2} x encrypt_subject / encrypt / elide_set(Encrypt), then a key-holding adversary (forge_encrypted: content vs declared digest mismatch for every register pair; tamper: ciphertext / nonce / tag / aad, random bit per round) or add_assertion / second encryption, then decrypt_subject / decrypt with each key",
        quick=[ENCRYPT_Q],
        thorough=[ENCRYPT_Q, dict(ENCRYPT_Q, name="encrypt_t", cfg="encrypt_t.cfg", rounds=3)],
    ),
    "C13": dict(
        rule="every shape x {compress, compress_subject, elide_set(Compress)} x {uncompress, uncompress_subject} chains, compressed elements as subject of add_assertion, forged (content, declared digest) pairs for every register pair, corrupt payloads (data bit, checksum, truncation)",
        quick=[COMPRESS_Q],
        thorough=[COMPRESS_Q, dict(COMPRESS_Q, name="compress_t", cfg="compress_t.cfg", rounds=3)],
    ),
    "C14": dict(
        rule="all ordered pairs (r1, r2) of registers where the registers hold a shape, an obscured variant of it under each action (one or two obscuring steps), a re-decoded copy or an unrelated shape; is_equivalent_to, is_identical_to, == and structural_digest compared with the specification (structural image evaluated by SHA-256)",
        quick=[COMPARE_Q],
    ),
    "C15": dict(
        rule="every shape of <= 5 elements, node-subject nodes and decorated assertions, and their obscured variants: both walk modes (visit sequence with level, edge, parent), digests(k) for every k, the predicate lookup family for every simple value / predicate present, typed extraction for 12 types; basic accessors",
        quick=[QUERY_Q],
    ),
    "C16": dict(
        rule="every call of every configuration runs under catch_unwind; a panic is never an allowed outcome. This check runs the query / lookup / extraction family and the transform / obscure families on every shape, node-subject nodes, decorated (assertion-on-assertion) shapes and their obscured variants",
        quick=[QUERY_Q, OBS_Q, CORE_ALL3],
    ),
    "C06": dict(
        rule="wire terms: the encoding of every shape (<= 5 elements, node-subject nodes, decorated assertions, nodes with 2-3 assertions, tagged-known-value leaves) and of its obscured variants, mutated at one position (reorder / duplicate assertion elements, drop all assertions, non-assertion in an assertion slot, unknown tag, leaf<->envelope retag, legacy leaf tag, digest one byte short/long, 0- or 2-entry assertion map, encrypted/compressed without digest or with a surplus element, non-minimal head, indefinite length, float/text/negative/bool in an element position); thorough: two positions. Each evaluated to bytes and given to the real decoder; the specification's decoder says accept (and what) or reject",
        quick=[DECODE_Q],
        thorough=[DECODE_Q, DECODE_T],
    ),
}
