"""Which bounded instances of the specification decide which property.

Each run: name, module, cfg (in spec/), rounds (concretisation rounds of the
replayer), optional simulate ("num=N") + depth, expect_ops / expect_out
(vacuity guards: the run is a tool error if one of them was never exercised).
"""

COMMON_ASSUMPTIONS = [
    "TLC 1.8 and the CommunityModules Json module are correct",
    "the harness term evaluator (sha2 SHA-256, hand-written CBOR writer, byte-wise sort) is correct; it is anchored to the digest test vectors of draft-mcnally-envelope-09 section 4 at start-up",
    "bc-components / bc-crypto / dcbor primitives (AEAD, DEFLATE, signatures, KEM, Shamir, dCBOR parsing) are trusted; how bc-envelope uses them is under test",
    "symbolic cryptography: no forgery, no digest collision; leaf CBOR never equals a concatenation of digests (A-img)",
    "bc_envelope::register_tags() is called once before any UR or formatting call (documented precondition)",
]


def R(name, cfg, module="MC", rounds=2, **kw):
    d = dict(name=name, module=module, cfg=cfg, rounds=rounds)
    d.update(kw)
    return d


CORE_ALL3 = R("core_all3", "core_all3.cfg",
              expect_ops=["new", "add_assertion", "add_assertion_envelope", "remove_assertion", "replace_subject",
                          "wrap", "unwrap", "elide", "elide_set", "compress", "encrypt_subject", "decrypt_subject",
                          "encode_decode"])
CORE_Q = R("core_q", "core_q.cfg", expect_ops=["add_assertion_po", "replace_assertion", "assertion_with_digest"])
CORE_T = R("core_t", "core_t.cfg", rounds=3)
OBS_Q = R("obscure_q", "obscure_q.cfg", expect_ops=["build", "elide_set", "compress", "encrypt"])
OBS_Q2 = R("obscure_q2", "obscure_q2.cfg", expect_ops=["build", "elide_set", "unelide"])

TWIN_Q = R("twin_q", "twin_q.cfg", expect_ops=["build", "assertion_with_digest", "elide", "compress", "add_assertions", "add_assertion_envelope", "remove_assertion"])

QUERY_Q = R("query_q", "query_q.cfg", expect_ops=["obs_structure", "obs_walk", "obs_digests", "obs_lookup", "obs_extract"])
COMPARE_Q = R("compare_q", "compare_q.cfg", expect_ops=["obs_compare", "encode_decode", "elide_set"])
COMPRESS_Q = R("compress_q", "compress_q.cfg", expect_ops=["compress", "uncompress", "compress_subject", "uncompress_subject", "forge_compressed", "corrupt"],
               expect_out=["uncompress:err", "uncompress:ok", "uncompress_subject:ok"])
ENCRYPT_Q = R("encrypt_q", "encrypt_q.cfg", expect_ops=["encrypt_subject", "decrypt_subject", "encrypt", "decrypt", "forge_encrypted", "tamper"],
              expect_out=["decrypt_subject:err", "decrypt_subject:ok", "decrypt:ok", "encrypt_subject:err"])

DECODE_Q = R("decode_q", "decode_q.cfg", expect_ops=["decode_wire", "encode_decode"], expect_out=["decode_wire:ok", "decode_wire:err"])
DECODE_T = R("decode_t", "decode_t.cfg", expect_ops=["decode_wire"], timeout=3000)

SIG_Q = R("sig_q", "sig_q.cfg", rounds=3, expect_ops=["add_signature", "sign", "forge_signed", "obs_verify", "elide_set"])
REMOVE_Q = R("remove_q", "remove_q.cfg", rounds=2, expect_ops=["remove_assertion", "replace_assertion", "replace_subject", "assertion_with_digest"])
REELIDE_Q = R("reelide_q", "reelide_q.cfg", rounds=2, expect_ops=["elide", "elide_set", "unelide"])
SSKR_MIX3_Q = R("sskr_mix3_q", "sskr_mix3_q.cfg", rounds=2, expect_ops=["sskr_split_pick", "sskr_pick_more", "sskr_join"], expect_out=["sskr_join:ok", "sskr_join:err"])
UNELIDE_Q = R("unelide_q", "unelide_q.cfg", rounds=2, expect_ops=["unelide", "elide", "elide_set"], expect_out=["unelide:ok", "unelide:err"])
SIG_Q2 = R("sig_q2", "sig_q2.cfg", rounds=2, expect_ops=["add_signature", "sign", "obs_verify", "elide_set"])
SIG_Q3 = R("sig_q3", "sig_q3.cfg", rounds=2, expect_ops=["add_signature", "sign", "obs_verify"])
SIG_T = R("sig_t", "sig_t.cfg", rounds=2, timeout=3000, expect_ops=["add_signature", "sign", "forge_signed", "obs_verify", "elide_set", "uncompress", "encode_decode"])
RECIPIENT_Q = R("recipient_q", "recipient_q.cfg", rounds=4, expect_ops=["encrypt_subject_to_recipients", "encrypt_to_recipient", "seal", "unseal", "add_recipient", "share_with", "decrypt_subject_to_recipient", "decrypt_to_recipient"],
                expect_out=["decrypt_subject_to_recipient:ok", "decrypt_subject_to_recipient:err", "unseal:ok", "unseal:err"])
RECIPIENT_Q2 = R("recipient_q2", "recipient_q2.cfg", rounds=3, expect_ops=["elide_set", "compress_subject", "encrypt_subject_to_recipients", "encrypt_to_recipient", "seal", "decrypt_subject_to_recipient"],
                 expect_out=["decrypt_subject_to_recipient:ok"])
SSKR_Q = R("sskr_q", "sskr_q.cfg", expect_ops=["sskr_split_join"], expect_out=["sskr_split_join:ok", "sskr_split_join:err"])
SSKR_MIX_Q = R("sskr_mix_q", "sskr_mix_q.cfg", expect_ops=["sskr_split_pick", "sskr_pick_more", "sskr_join"], expect_out=["sskr_join:ok", "sskr_join:err"])
PROOF_Q = R("proof_q", "proof_q.cfg", expect_ops=["proof_contains_set", "obs_confirm"], expect_out=["proof_contains_set:ok", "proof_contains_set:err"])
ATTACH_Q = R("attach_q", "attach_q.cfg", expect_ops=["add_attachment", "add_bad_attachment", "add_type", "obs_types", "obs_attachments"])
SALT_Q = R("salt_q", "salt_q.cfg", rounds=3, expect_ops=["add_salt", "add_salt_with_len", "add_salt_in_range", "add_assertion_salted", "add_assertion_envelope_salted", "obs_lookup"],
           expect_out=["add_salt_with_len:err", "add_salt_in_range:err"])

TRACE_WALK = dict(name="trace_walk", kind="trace", driver="tracecheck", gen_args=["--traces", 24, "--len", 150],
                  expect_ops=["add_assertion_envelope", "elide_set", "encrypt_subject", "decrypt_subject", "compress", "uncompress", "encode_decode", "remove_present", "replace_present", "replace_subject", "add_salt"])
TRACE_WALK_T = dict(TRACE_WALK, name="trace_walk_t", gen_args=["--traces", 120, "--len", 300, "--max-elements", 60])
TRACE_ORDER = dict(name="trace_order", kind="trace", driver="tracecheck", gen_args=["--mode", "order"], expect_ops=["add_assertion_envelope", "encode_decode"])
TRACE_BYTES = dict(name="trace_bytes", kind="trace", driver="tracecheck", gen_args=["--mode", "bytes", "--count", 20000], expect_ops=["decode_bytes"])
TRACE_BYTES_T = dict(TRACE_BYTES, name="trace_bytes_t", gen_args=["--mode", "bytes", "--count", 400000], timeout=3000)
TRACE_SALT = dict(name="trace_salt", kind="trace", driver="tracecheck", gen_args=["--mode", "salt", "--reps", 16], expect_ops=["add_salt"])
TRACE_SALT_T = dict(TRACE_SALT, name="trace_salt_t", gen_args=["--mode", "salt", "--reps", 128])

TOTAL_Q = R("total_q", "total_q.cfg", expect_ops=["replace_subject", "compress_subject", "add_assertion_envelope", "obs_lookup", "add_salt"])

REGISTRY_Q = dict(name="registry_q", module="Registry", cfg="Registry.cfg", rounds=1, replayer="regreplay", workers=4,
                  expect_ops=["kv_insert", "fn_insert", "pm_insert", "make_context"])
LOCKS_Q = dict(name="locks_q", kind="locks", driver="lockcheck", threads=3, calls=2, rounds=40, stress_threads=16, stress_calls=3)
LOCKS_T = dict(name="locks_t", kind="locks", driver="lockcheck", threads=4, calls=2, rounds=300, stress_threads=16, stress_calls=4, timeout=7000)

EXPR_Q = R("expr_q", "expr_q.cfg", expect_ops=["expression", "request", "response", "event", "malform", "obs_parse"])

OBS_Q3 = R("obscure_q3", "obscure_q3.cfg", expect_ops=["compress_subject", "uncompress_subject", "encrypt_subject", "decrypt_subject", "replace_subject"])

# quick tier: ONE TLC worker - with a fixed seed the simulation then visits the same histories in every run
DEEP_S = R("deep_s", "deep_s.cfg", rounds=1, simulate="num=60", depth=10, workers=1, expect_ops=["add_salt", "add_signature", "elide_set", "encrypt_subject", "compress_subject"])
DEEP_S_T = dict(DEEP_S, name="deep_s_t", simulate="num=400", rounds=2, workers=4)
DEEP_X = R("deep_x", "deep_x.cfg", rounds=1, simulate="num=60", depth=10, workers=1,
           expect_ops=["elide_set", "add_signature", "seal", "encrypt_subject_to_recipients", "proof_contains_set", "obs_confirm", "add_attachment", "forge_signed", "tamper", "sskr_join", "obs_verify"])
DEEP_X_T = dict(DEEP_X, name="deep_x_t", simulate="num=300", rounds=2, timeout=3000, workers=4)
OBSCURE_T = R("obscure_t", "obscure_t.cfg", rounds=2, timeout=3000, expect_ops=["elide_set", "elide", "compress", "encrypt_subject", "unelide"])
SSKR_T = R("sskr_t", "sskr_t.cfg", rounds=1, timeout=3000, expect_ops=["sskr_split_join"], expect_out=["sskr_split_join:ok", "sskr_split_join:err"])
QUERY_T = R("query_t", "query_t.cfg", rounds=2, timeout=3000, expect_ops=["obs_walk", "obs_digests", "obs_lookup", "obs_extract", "obs_structure", "obs_tree_format", "obs_format"])
COMPARE_T = R("compare_t", "compare_t.cfg", rounds=2, timeout=3000, expect_ops=["obs_compare"])
EXPR_T = R("expr_t", "expr_t.cfg", rounds=2, timeout=3000, expect_ops=["expression", "request", "response", "event", "malform", "obs_parse"])
ATTACH_T = R("attach_t", "attach_t.cfg", rounds=2, timeout=3000, expect_ops=["add_attachment", "add_bad_attachment", "add_type", "obs_types", "obs_attachments"])
PROOF_T = R("proof_t", "proof_t.cfg", rounds=1, timeout=3000, expect_ops=["proof_contains_set", "obs_confirm"])

FORGE_Q = R("forge_q", "forge_q.cfg", expect_ops=["forge_encrypted", "forge_compressed", "tamper", "corrupt", "decrypt_subject", "uncompress_subject"], expect_out=["decrypt_subject:err", "uncompress_subject:err", "uncompress_subject:ok"])

PLAN = {
    "C01": dict(
        rule="every transition TLC explores in the bounded machine (all call sequences up to the depth bound over the listed action families, 2 registers, atoms a1,a2 + known value 1, plus every clear shape of <= 5 elements as input to the obscuring calls) is executed against the real library in several concretisation rounds (atoms -> typed values of every leaf CBOR type); the digest of the result and of every element of it must equal SHA-256 evaluated from the specification's digest term. non-trivial = distinct (call, expected result) pairs whose result has >= 2 elements or is an error",
        quick=[CORE_ALL3, OBS_Q, REMOVE_Q, FORGE_Q, TRACE_WALK, TRACE_ORDER],
        thorough=[CORE_ALL3, CORE_T, OBS_Q, OBS_Q2, REMOVE_Q, FORGE_Q, TRACE_WALK_T, TRACE_ORDER],
    ),
    "C02": dict(
        rule="every shape of <= 5 elements x every target subset (<= 3 digests incl. an absent one) x both modes x {elide, encrypt, compress} and the whole-envelope calls, then a second obscuring call; the decoder guard on which the property rests (decode_q: a non-canonical node - repeated or unsorted assertions - never becomes an envelope); (also on nodes: reelide_q = progressive redaction of nodes, node-subject nodes, decorated assertions) on the result; digests at every surviving position compared with the specification's terms",
        quick=[OBS_Q, OBS_Q2, OBS_Q3, REELIDE_Q, DECODE_Q],
        thorough=[OBS_Q, OBS_Q2, OBS_Q3, REELIDE_Q, DECODE_Q, OBSCURE_T, DEEP_S_T, DEEP_X_T],
    ),
    "C03": dict(
        rule="as C02; the expected tree says exactly which positions are hidden, the serialized bytes must equal the evaluated wire term (no residue), unelide with every register pair",
        quick=[OBS_Q, OBS_Q2, REELIDE_Q, OBS_Q3, UNELIDE_Q],
        thorough=[OBS_Q, OBS_Q2, REELIDE_Q, OBS_Q3, UNELIDE_Q, OBSCURE_T, DEEP_S_T, DEEP_X_T],
    ),
    "C04": dict(
        rule="all mutating action families from the empty register file, depth <= 3 (all families) and <= 4 (construct/assertions/wrap); serialized bytes of every result must equal the evaluated wire term whose node arrays are sorted by the real digest bytes",
        quick=[CORE_ALL3, TWIN_Q, TRACE_WALK, TRACE_ORDER, DEEP_S],
        thorough=[CORE_ALL3, CORE_T, TWIN_Q, TRACE_WALK_T, TRACE_ORDER, DEEP_S_T, DEEP_X_T],
    ),
    "C05": dict(
        rule="encode->decode (bytes, CBOR value and UR string variants) of every envelope reachable in the bounded machine; decoded projection identical and re-encoding byte-identical",
        quick=[CORE_ALL3, DECODE_Q, REMOVE_Q],
        thorough=[CORE_ALL3, CORE_T, DECODE_Q, DECODE_T, REMOVE_Q, TRACE_WALK_T, DEEP_S_T],
    ),
    "C07": dict(
        rule="all insertion sequences of the bounded machine; results compared with the order-free (set based) specification term, byte for byte",
        quick=[CORE_Q, TWIN_Q, REMOVE_Q, TRACE_ORDER],
        thorough=[CORE_T, CORE_ALL3, TWIN_Q, REMOVE_Q, TRACE_ORDER, TRACE_WALK_T],
    ),
    "C08": dict(
        rule="every shape (<= 4 elements, nodes of 5) x keys {k1,k2} x encrypt_subject / encrypt / elide_set(Encrypt), then a key-holding adversary (forge_encrypted: content vs declared digest mismatch for every register pair; tamper: ciphertext / nonce / tag / aad, random bit per round) or add_assertion / second encryption, then decrypt_subject / decrypt with each key",
        quick=[ENCRYPT_Q, FORGE_Q],
        thorough=[ENCRYPT_Q, FORGE_Q, dict(ENCRYPT_Q, name="encrypt_t", cfg="encrypt_t.cfg", rounds=3), DEEP_X_T],
    ),
    "C13": dict(
        rule="every shape x {compress, compress_subject, elide_set(Compress)} x {uncompress, uncompress_subject} chains, compressed elements as subject of add_assertion, forged (content, declared digest) pairs for every register pair, corrupt payloads (data bit, checksum, truncation)",
        quick=[COMPRESS_Q, FORGE_Q],
        thorough=[COMPRESS_Q, FORGE_Q, dict(COMPRESS_Q, name="compress_t", cfg="compress_t.cfg", rounds=3), DEEP_X_T],
    ),
    "C14": dict(
        rule="all ordered pairs (r1, r2) of registers where the registers hold a shape, an obscured variant of it under each action (one or two obscuring steps), a re-decoded copy or an unrelated shape; is_equivalent_to, is_identical_to, == and structural_digest compared with the specification (structural image evaluated by SHA-256)",
        quick=[COMPARE_Q],
        thorough=[COMPARE_Q, COMPARE_T, DEEP_X_T],
    ),
    "C15": dict(
        rule="every shape of <= 5 elements, node-subject nodes and decorated assertions, and their obscured variants: both walk modes (visit sequence with level, edge, parent), digests(k) for every k, the predicate lookup family for every simple value / predicate present, typed extraction for 12 types; basic accessors and their try_/as_/is_ forms; tree_format line by line; format() / format_flat() against the layout of the notation term (Queries!Notation)",
        quick=[QUERY_Q],
        thorough=[QUERY_Q, QUERY_T, DEEP_X_T],
    ),
    "C16": dict(
        rule="every call of every configuration runs under catch_unwind; a panic is never an allowed outcome. This check runs the query / lookup / extraction family and the transform / obscure families on every shape, node-subject nodes, decorated (assertion-on-assertion) shapes and their obscured variants, and random histories of 10 calls over EVERY family of the machine (deep_x, TLC simulation: core, salt, signatures and forged signatures, recipients, SSKR, proofs, types, attachments, adversarial forge / tamper, all observations) on 3 registers",
        quick=[QUERY_Q, OBS_Q, TOTAL_Q, DECODE_Q, DEEP_X],
        thorough=[QUERY_Q, OBS_Q, TOTAL_Q, DECODE_Q, CORE_ALL3, SIG_Q, RECIPIENT_Q, SSKR_MIX_Q, ATTACH_Q, SALT_Q, DEEP_S_T, DEEP_X_T],
    ),
    "C06": dict(
        rule="wire terms: the encoding of every shape (<= 5 elements, node-subject nodes, decorated assertions, nodes with 2-3 assertions, tagged-known-value leaves) and of its obscured variants, mutated at one position (reorder / duplicate assertion elements, drop all assertions, non-assertion in an assertion slot, unknown tag, leaf<->envelope retag, legacy leaf tag, digest one byte short/long, 0- or 2-entry assertion map, encrypted/compressed without digest or with a surplus element, non-minimal head, indefinite length, float/text/negative/bool in an element position); thorough: two positions. Each evaluated to bytes and given to the real decoder; the specification's decoder says accept (and what) or reject",
        quick=[DECODE_Q, TRACE_BYTES],
        thorough=[DECODE_Q, DECODE_T, TRACE_BYTES_T],
    ),
    "C09": dict(
        rule="subjects (leaf, wrapped, node) x signers {s1,s2} (scheme per chain: s1 deterministic - ECDSA, Ed25519, SSH-Ed25519; s2 randomised - Schnorr, ML-DSA44) with/without metadata x then another signature / a forged 'signed' assertion of 8 kinds / elision of any part / another assertion / a repeated signature by the same key after elision or compression of any part (sig_q2) x has_signature_from, verify_signature_from, verify, *_returning_metadata for every key list of length 1-2 and threshold none, 1..n+1",
        quick=[SIG_Q, SIG_Q2, SIG_Q3],
        thorough=[SIG_Q, SIG_Q2, SIG_Q3, SIG_T, DEEP_X_T],
    ),
    "C10": dict(
        rule="shapes x recipient lists of length 1-2 over {r1,r2} (X25519 / ML-KEM512 / ML-KEM768 per chain, duplicates allowed) x {encrypt_subject_to_recipients, encrypt_to_recipient, seal} then add_recipient / re-sharing by an existing recipient / another assertion, or (recipient_q2) elision / compression of the subject or of other parts BEFORE the encryption, then decrypt_subject_to_recipient / decrypt_to_recipient / unseal with each private key and sender",
        quick=[RECIPIENT_Q, RECIPIENT_Q2],
        thorough=[RECIPIENT_Q, RECIPIENT_Q2, dict(RECIPIENT_Q, name="recipient_t", cfg="recipient_t.cfg", rounds=2, timeout=3000), DEEP_X_T],
    ),
    "C11": dict(
        rule="every SSKR policy with <= 2 groups of <= 3 members (78 policies) x every subset of the generated shares x shapes; shares of two splits mixed in registers (same key / different key / decrypted copy)",
        quick=[SSKR_Q, SSKR_MIX_Q, SSKR_MIX3_Q],
        thorough=[SSKR_Q, SSKR_MIX_Q, SSKR_MIX3_Q, SSKR_T, DEEP_X_T],
    ),
    "C12": dict(
        rule="shapes (<= 3 elements, nodes of 5 incl. two-assertion nodes; repeated atoms give multi-position targets) x every target set of <= 2 digests incl. an absent one x proof_contains_set/target, then every ordered register pair (root, proof) - own proofs, proofs of other envelopes, further elided proofs - x target sets from both: confirm_contains_set/target by a verifier holding only the elided root",
        quick=[PROOF_Q],
        thorough=[PROOF_Q, PROOF_T, DEEP_X_T],
    ),
    "C17": dict(
        rule="direction A: add_salt / add_salt_with_len(0,7,8,20) / add_salt_in_range / add_assertion(_envelope)_salted on shapes, then a second salting or predicate lookups; the salt leaf must parse as Salt (>= 8 bytes). direction B (trace): see saltsize run",
        quick=[SALT_Q, TRACE_SALT],
        thorough=[SALT_Q, TRACE_SALT_T, TRACE_WALK_T, DEEP_X_T],
    ),
    "C19": dict(
        rule="bases x multisets of <= 2 attachments (payload = any register, vendors v1,v2, conformsTo absent/c1/c2) and malformed attachment assertions of 6 kinds, types over known values and strings; all 12 (vendor, conformsTo) filter combinations in list and single-result form, payload/vendor/conformsTo of every returned attachment, types()/has_type/check_type/get_type",
        quick=[ATTACH_Q],
        thorough=[ATTACH_Q, ATTACH_T, DEEP_X_T],
    ),
    "C20": dict(
        rule="(1) lock programs (Once gates, mutex acquire/release, dcbor tag-lock blips) extracted from the hooks of the current build for 13 call kinds (format, format_flat, tree_format, diagnostic_annotated, hex, register_tags, known-value / function / parameter lookups, encode, ur, formatting while holding a registry guard, an application registering a tag of its own); TLC explores every interleaving of 3 threads x 2 calls (thorough: 4 x 2) over the distinct programs, all threads racing on first use: deadlock freedom, once-only initialisation, no lock held at return, termination under fairness; real stress runs of 2..16 racing threads in fresh processes with a 20 s watchdog, every result compared with the single-thread text, recorded lock events validated by TLC against LocksTrace; (2) the registries as a sequential state machine (Registry.tla: KnownValuesStore as two maps, functions / parameters stores, a format context as a copy of the stores with summarizers copied again at registration): every insert / make-context sequence of length <= 4 over 2 codes x 2 names, each followed by the full projection through the query API and format() / tree_format() of probe envelopes",
        quick=[LOCKS_Q, REGISTRY_Q],
        thorough=[LOCKS_T, REGISTRY_Q],
        assumptions=["A-tags: code run by dcbor while it holds its tag-registry lock never calls back into a bc-envelope function that takes a registry lock", "the harness builds the crate with its multithreaded feature; the default (Rc) build is covered by the repository suite only"],
    ),
    "C18": dict(
        rule="functions {known 1, known 2 (with and without a name), named f, named 1} x parameter lists of length 0-2 over {known 1, known 2, named p} with repeats x parameter values / payloads / contents of every envelope kind in the shape set (leaf, known value, wrapped, assertion, node, elided) x ids x notes {empty, n} x dates {absent, integral, fractional, negative} x response variants {success, failure, early failure; default and explicit payloads}; 14 single-part malformations; parse directly and through bytes, with and without an expected function",
        quick=[EXPR_Q],
        thorough=[EXPR_Q, EXPR_T, DEEP_X_T],
    ),
}
