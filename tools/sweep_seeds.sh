#!/bin/bash
# run every kept seeded change against the check of its property; record the verdict in seeded/<id>/meta.json
cd /verif
for d in seeded/${SEED_GLOB:-*}/; do
  id=$(basename $d); prop=$(echo $id | grep -o "C[0-9][0-9]" | head -1)
  patch=/verif/$d/patch.diff; [ -f /verif/$d/patch_rebased.diff ] && patch=/verif/$d/patch_rebased.diff
  out=$(tools/try_seed.sh $patch $prop 2>&1)
  rc=$(echo "$out" | grep -o "rc=[0-9]*" | head -1 | cut -d= -f2)
  keys=$(echo "$out" | grep -o "^\s*\[[^]]*\]" | tr -d ' []' | sort -u | tr '\n' ',' )
  python3 - "$d/meta.json" "$prop" "$rc" "$keys" "$(basename $patch)" <<'PY'
import json,sys
p,prop,rc,keys,patch=sys.argv[1:6]
try: m=json.load(open(p))
except Exception: m={}
m['detected_by']={'check':'./check %s (quick tier)'%prop,'exit_code':int(rc) if rc.isdigit() else None,'failure_keys':[k for k in keys.split(',') if k],'patch_used':patch}
json.dump(m,open(p,'w'),indent=1)
PY
  echo "$id rc=$rc $keys"
done
git -C /repo status --short | head -3
