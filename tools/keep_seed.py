#!/usr/bin/env python3
"""keep_seed.py <verify-log>: copy verified seeded changes from /tmp/seed into /verif/seeded/<id>-<m>/"""
import json, os, shutil, sys
for line in open(sys.argv[1]):
    line=line.strip()
    if not line.startswith('{'): continue
    v=json.loads(line)
    sd=v['seed']; pid=sd.split('/')[-2]; m=sd.split('/')[-1]
    ok = v.get('demo_pristine_rc')==0 and v.get('demo_mutated_rc') not in (0,None) and v.get('suite_rc')==0
    if not ok:
        print("NOT KEPT", sd, v); continue
    dst='/verif/seeded/%s-%s'%(pid,m)
    os.makedirs(dst,exist_ok=True)
    for f in ('patch.diff','demo.rs'):
        shutil.copy(os.path.join(sd,f),dst)
    meta=json.load(open(os.path.join(sd,'meta.json')))
    meta['confirmed']={'how':'tools/verify_seed.sh in a scratch worktree of the pinned commit: demo passes pristine, fails with the patch, full suite unchanged',
                       'demo_pristine':'pass','demo_mutated':'fail','suite_with_change':v['suite']}
    old=os.path.join(dst,'meta.json')
    if os.path.exists(old):
        o=json.load(open(old))
        for k in ('detected_by','detection_notes'):
            if k in o: meta[k]=o[k]
    json.dump(meta,open(old,'w'),indent=1)
    print("kept",dst)
