"""Negative controls: the binding must bite. Run by ./check selftest (not a property check)."""
import json, os, shutil, subprocess, sys, re

ROOT = os.path.dirname(os.path.dirname(os.path.abspath(__file__)))
SPEC = os.path.join(ROOT, "spec")
BIN = os.path.join(ROOT, "harness", "target", "release")
OUT = os.path.join(ROOT, "out", "selftest")


def tlc(cwd, cfg, module, env=None, workers=4):
    md = os.path.join(cwd, "md")
    shutil.rmtree(md, ignore_errors=True)
    q = subprocess.run(["timeout", "600", "tlc", "-workers", str(workers), "-metadir", md, "-cleanup", "-noGenerateSpecTE", "-config", cfg, module],
                       cwd=cwd, env=env, stdout=subprocess.PIPE, stderr=subprocess.STDOUT, text=True)
    shutil.rmtree(md, ignore_errors=True)
    return q.stdout


def main():
    shutil.rmtree(OUT, ignore_errors=True)
    os.makedirs(OUT)
    results = []

    # 1. a broken specification must violate the property on the model
    d = os.path.join(OUT, "spec")
    shutil.copytree(SPEC, d)
    p = os.path.join(d, "EnvelopeOps.tla")
    s = open(p).read()
    s2 = s.replace('[] e[1] = "wrap" -> Wrap(ObscureSet(e[2], T, rev, act, Append(path, <<"w">>)))', '[] e[1] = "wrap" -> e')
    assert s2 != s
    open(p, "w").write(s2)
    cfg = open(os.path.join(d, "obscure_q2.cfg")).read().replace("ACTION_CONSTRAINT Emit\n", "")
    open(os.path.join(d, "obscure_q2.cfg"), "w").write(cfg)
    out = tlc(d, "obscure_q2.cfg", "MC.tla")
    results.append(("specification without recursion into wrapped envelopes violates C03Prop on the model", "C03Prop is violated" in out))

    # 2. a corrupted expectation must be reported by the replayer
    cfg = open(os.path.join(SPEC, "twin_q.cfg")).read()
    d2 = os.path.join(OUT, "beh")
    os.makedirs(d2)
    out = subprocess.run("cd %s && timeout 300 tlc -workers 2 -metadir %s/md -cleanup -noGenerateSpecTE -config twin_q.cfg MC.tla | grep BEH | head -400 | tail -1" % (SPEC, d2),
                         shell=True, stdout=subprocess.PIPE, text=True).stdout.strip()
    inner = json.loads(out[len('<<"BEH", '):-2])
    beh = json.loads(inner)
    good = os.path.join(d2, "good.json")
    json.dump({"behaviour": beh, "seed": 1, "rounds": 2}, open(good, "w"))
    rc_good = subprocess.call([os.path.join(BIN, "replay"), "--one", good], stdout=subprocess.DEVNULL)
    bad = json.loads(inner.replace('"kv",1', '"kv",2', 1)) if '"kv",1' in json.dumps(beh["res"]).replace(" ", "") else None
    txt = json.dumps(beh["res"]).replace(" ", "")
    if '"a1"' in txt:
        beh_bad = json.loads(json.dumps(beh))
        beh_bad["res"] = json.loads(json.dumps(beh["res"]).replace('"a1"', '"a2"', 1))
    else:
        beh_bad = json.loads(json.dumps(beh))
        beh_bad["out"] = ["err", "x"] if beh["out"][0] == "ok" else ["ok", ""]
    badf = os.path.join(d2, "bad.json")
    json.dump({"behaviour": beh_bad, "seed": 1, "rounds": 2}, open(badf, "w"))
    rc_bad = subprocess.call([os.path.join(BIN, "replay"), "--one", badf], stdout=subprocess.DEVNULL)
    results.append(("replayer accepts a behaviour printed by TLC", rc_good == 0))
    results.append(("replayer reports the same behaviour with one expected field altered", rc_bad == 1))

    # 3. a corrupted / shortened recording must be rejected by Trace.tla
    d3 = os.path.join(OUT, "trace")
    os.makedirs(d3)
    tr = os.path.join(d3, "t.ndjson")
    subprocess.check_call([os.path.join(BIN, "tracegen"), "--seed", "5", "--traces", "2", "--len", "60", "--out", tr], stdout=subprocess.DEVNULL)
    ev = [json.loads(l) for l in open(tr)]

    def validate(events, name):
        f = os.path.join(d3, name)
        with open(f, "w") as h:
            for e in events:
                h.write(json.dumps(e) + "\n")
        env = dict(os.environ, TRACE=f, JAVA_TOOL_OPTIONS="-Xss1g -Dtlc2.tool.queue.IStateQueue=StateDeque")
        o = tlc(SPEC, "Trace.cfg", "Trace.tla", env, workers=1)
        return "TRACE-REJECTED" in o, "No error has been found" in o

    rej, ok = validate(ev, "good.ndjson")
    results.append(("Trace.tla accepts an unaltered recording", ok and not rej))
    # alter one digest id of a result
    k = next(i for i, e in enumerate(ev) if e["op"] == "new_assertion" and e["out"] == "ok")
    ev2 = json.loads(json.dumps(ev))
    ev2[k]["res"][-1] = 999999
    rej, ok = validate(ev2, "bad_digest.ndjson")
    results.append(("Trace.tla rejects a recording with one digest id altered (DmapFunctional/Injective)", rej))
    # drop one event that changes a register used later
    k = next(i for i, e in enumerate(ev) if e["op"] in ("add_assertion_envelope", "wrap", "new_assertion") and e["out"] == "ok")
    ev3 = ev[:k] + ev[k + 1:]
    rej, ok = validate(ev3, "dropped.ndjson")
    results.append(("Trace.tla rejects a recording with one event removed", rej))

    # 4. a lock event log without one release must be rejected by LocksTrace.tla
    d4 = os.path.join(OUT, "locks")
    os.makedirs(d4)
    progs = os.path.join(d4, "p.json")
    subprocess.check_call([os.path.join(BIN, "locks"), "extract", "--out", progs])
    st = os.path.join(d4, "s.json")
    subprocess.check_call([os.path.join(BIN, "locks"), "stress", "--threads", "4", "--rounds", "3", "--calls", "2", "--seed", "3", "--out", st, "--ref", progs], stdout=subprocess.DEVNULL)
    S = json.load(open(st))

    def lvalidate(logs, name, drop=None):
        f = os.path.join(d4, name)
        n = 0
        with open(f, "w") as h:
            for lg in logs:
                h.write(json.dumps({"t": 0, "s": 0, "k": "reset", "l": "FC"}) + "\n")
                for (t, s, k, l) in lg["events"]:
                    n += 1
                    if drop is not None and n == drop:
                        continue
                    h.write(json.dumps({"t": t, "s": s, "k": k, "l": l}) + "\n")
        env = dict(os.environ, TRACE=f, JAVA_TOOL_OPTIONS="-Xss1g -Dtlc2.tool.queue.IStateQueue=StateDeque")
        o = tlc(SPEC, "LocksTrace.cfg", "LocksTrace.tla", env, workers=1)
        return "LOCKTRACE-REJECTED" in o, "No error has been found" in o

    rej, ok = lvalidate(S["logs"], "good.ndjson")
    results.append(("LocksTrace.tla accepts the recorded lock events", ok and not rej))
    # a release that is followed, in the same run, by another acquisition of that lock
    idx, n = None, 0
    for lg in S["logs"]:
        evs = lg["events"]
        for i, e in enumerate(evs):
            n += 1
            if idx is None and e[2] == "rel" and any(x[2] == "acq" and x[3] == e[3] for x in evs[i + 1:]):
                idx = n
    rej, ok = lvalidate(S["logs"], "norel.ndjson", drop=idx)
    results.append(("LocksTrace.tla rejects the log with one release removed (mutual exclusion)", idx is not None and rej))

    # 4b. a stale view after a completed registration, and a lost registration, must be rejected
    def lvalidate_raw(lines, name):
        f = os.path.join(d4, name)
        with open(f, "w") as h:
            for x in lines:
                h.write(json.dumps(x) + "\n")
        env = dict(os.environ, TRACE=f, JAVA_TOOL_OPTIONS="-Xss1g -Dtlc2.tool.queue.IStateQueue=StateDeque")
        o = tlc(SPEC, "LocksTrace.cfg", "LocksTrace.tla", env, workers=1)
        return "LOCKTRACE-REJECTED" in o, "No error has been found" in o
    base = [{"t": 0, "s": 0, "k": "reset", "l": "FC"}, {"t": 1, "s": 1, "k": "begin", "l": "register_tags"},
            {"t": 1, "s": 2, "k": "reg_done", "l": "FC"}, {"t": 1, "s": 3, "k": "end_any", "l": "register_tags"},
            {"t": 2, "s": 1, "k": "begin", "l": "format"}]
    rej, ok = lvalidate_raw(base + [{"t": 2, "s": 2, "k": "end_post", "l": "format"}, {"t": 1, "s": 4, "k": "tags_kept", "l": "FC"}], "vis_good.ndjson")
    results.append(("LocksTrace.tla accepts a call that begins after a registration and shows the registered names", ok and not rej))
    rej, ok = lvalidate_raw(base + [{"t": 2, "s": 2, "k": "end_pre", "l": "format"}], "vis_stale.ndjson")
    results.append(("LocksTrace.tla rejects a call that begins after a completed registration and returns the unregistered text", rej))
    rej, ok = lvalidate_raw(base + [{"t": 2, "s": 2, "k": "end_post", "l": "format"}, {"t": 1, "s": 4, "k": "tags_lost", "l": "FC"}], "lost.ndjson")
    results.append(("LocksTrace.tla rejects a run in which a registered tag was lost", rej))

    # 5. the registry replayer must report a behaviour of Registry.tla with one projected answer altered
    d5 = os.path.join(OUT, "registry")
    os.makedirs(d5)
    o = tlc(SPEC, "Registry.cfg", "Registry.tla", dict(os.environ), workers=2)
    lines = [l for l in o.splitlines() if l.startswith('<<"BEH"')][:200]
    def regrun(ls, name):
        rep = os.path.join(d5, name)
        p = subprocess.run([os.path.join(BIN, "regreplay"), "--report", rep], input="\n".join(ls) + "\n", stdout=subprocess.PIPE, stderr=subprocess.STDOUT, text=True)
        return json.load(open(rep))
    r_good = regrun(lines, "good.json")
    results.append(("registry replayer accepts behaviours printed by TLC for Registry.tla", r_good["behaviours"] == len(lines) and not r_good["failure_counts"]))
    bad = [l.replace('\\"kv_name\\":[\\"a\\"', '\\"kv_name\\":[\\"zz\\"', 1) for l in lines]
    r_bad = regrun(bad, "bad.json")
    results.append(("registry replayer reports a behaviour with one projected name altered", bad != lines and bool(r_bad["failure_counts"])))

    allok = True
    for name, okv in results:
        print("%s  %s" % ("PASS" if okv else "FAIL", name))
        allok = allok and okv
    shutil.rmtree(OUT, ignore_errors=True)
    return 0 if allok else 1


if __name__ == "__main__":
    sys.exit(main())
