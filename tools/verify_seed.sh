#!/bin/bash
# usage: verify_seed.sh <worktree> <seed dir (with patch.diff, demo.rs)>  -> prints one JSON line
WT=$1; SD=$2
export CARGO_TARGET_DIR=$WT/target CARGO_NET_OFFLINE=true
cd $WT || exit 2
git checkout -q -- . ; git clean -qfd -e target
cp $SD/demo.rs tests/demo_seeded.rs
cargo test --offline --test demo_seeded > $SD/verify_pristine.log 2>&1; p=$?
git apply $SD/patch.diff || { echo "{\"seed\":\"$SD\",\"error\":\"patch does not apply\"}"; exit 1; }
cargo test --offline --test demo_seeded > $SD/verify_mutated.log 2>&1; m=$?
rm -f tests/demo_seeded.rs
cargo test --offline --no-fail-fast > $SD/verify_suite.log 2>&1; s=$?
passed=$(grep -E "^test result" $SD/verify_suite.log | awk '{p+=$4; f+=$6} END {print p" passed / "f" failed"}')
git checkout -q -- . ; git clean -qfd -e target
echo "{\"seed\":\"$SD\",\"demo_pristine_rc\":$p,\"demo_mutated_rc\":$m,\"suite_rc\":$s,\"suite\":\"$passed\"}"
