#!/bin/bash
# usage: tools/try_seed.sh <patch.diff> <Cxx> [<Cyy> ...]   apply a seeded change to /repo, run checks, undo
P=$1; shift
cd /repo
if ! git apply --check "$P" 2>/dev/null; then
  if ! git apply --3way "$P" 2>/dev/null; then echo "PATCH-DOES-NOT-APPLY $P"; git reset -q; git checkout -- . ; exit 3; fi
  git reset -q
else
  git apply "$P"
fi
git diff --stat | tail -1
cd /verif
for c in "$@"; do
  ./check $c ${TIER:+--tier $TIER} > out/seed_$c.log 2>&1; rc=$?
  echo "== $c rc=$rc"; grep -E "VIOLATION|TOOL-ERROR|^\s+\[" out/seed_$c.log | head -6
done
git -C /repo checkout -- .
git -C /repo status --short | head -3
