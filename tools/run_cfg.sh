#!/bin/bash
# usage: tools/run_cfg.sh <MC module> <cfg> <outdir> [rounds] [seed]   (scratch helper)
set -e
M=MC; C=$1.cfg; O=${2:-/verif/out/t}; R=${3:-2}; S=${4:-1}
mkdir -p $O
( cd /verif/harness && cargo build --release --offline 2>&1 | grep -E "^(warning: unused|error|Finished)" | tail -3 )
( cd /verif/spec && timeout ${TLC_TIMEOUT:-240} tlc -workers 8 -metadir $O/md -cleanup -noGenerateSpecTE -config $C $M.tla 2>&1 ) | /verif/harness/target/release/replay --seed $S --rounds $R --threads 8 --report $O/rep.json --tlc-log $O/tlc.log
tail -6 $O/tlc.log
python3 - $O/rep.json <<'PY'
import json,sys
r=json.load(open(sys.argv[1]))
print({k:r[k] for k in ['behaviours','evaluations','distinct_nontrivial','failure_counts','tool_errors','err_kind_notes']})
for f in r['failures'][:8]:
    print('--',f['kind'],f['key'],f['detail'][:400]); print('   ',f['behaviour_text'][:300])
PY
