use bc_envelope::prelude::*;
fn main() {
    let h = std::fs::read_to_string("/verif/out/t/badhex.txt").unwrap();
    let b = hex::decode(h.trim()).unwrap();
    let e = Envelope::try_from_cbor_data(b.clone()).unwrap();
    let re = e.tagged_cbor().to_cbor_data();
    println!("in : {}", hex::encode(&b));
    println!("out: {}", hex::encode(&re));
    println!("{}", e.format());
    println!("{}", dcbor::CBOR::try_from_data(&b).unwrap().diagnostic());
    println!("{}", dcbor::CBOR::try_from_data(&re).unwrap().diagnostic());
}
