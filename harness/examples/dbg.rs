use bc_envelope::prelude::*;
use bc_components::Compressed;
use dcbor::prelude::*;
fn main() {
    let e = Envelope::new(0u8).wrap_envelope().wrap_envelope().wrap_envelope();
    let c = e.compress().unwrap();
    println!("{}", hex::encode(c.tagged_cbor().to_cbor_data()));
    if let bc_envelope::base::envelope::EnvelopeCase::Compressed(cc) = c.case() {
        let arr = cc.untagged_cbor().try_into_array().unwrap();
        let checksum: u32 = arr[0].clone().try_into().unwrap();
        let size: usize = arr[1].clone().try_into().unwrap();
        let data: Vec<u8> = arr[2].clone().try_into_byte_string().unwrap();
        println!("size {} data {}", size, hex::encode(&data));
        for i in 0..data.len() {
            let mut d = data.clone();
            d[i] ^= 0x20;
            let c2 = Compressed::new(checksum, size, d.clone(), cc.digest_ref_opt().cloned()).unwrap();
            let e2 = Envelope::try_from(c2).unwrap();
            match e2.uncompress() { Ok(x) => println!("flip {} -> OK {} {}", i, hex::encode(&d), x.format_flat()), Err(_) => {} }
        }
    }
}
