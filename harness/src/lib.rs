pub mod cborw;
pub mod eval;
pub mod obs;
pub mod ops;
pub mod pool;
pub mod project;
pub mod replay;
pub mod vectors;
