//! Direction B: a seeded random driver executes long call sequences on the real
//! library over a much richer value universe than TLC's, and records one event per
//! call: operation, arguments, outcome and the full abstract projection of the
//! result (every element annotated with an integer naming its real digest).
//! spec/Trace.tla validates the recording against the specification's operators.
//!
//! Output: ndjson, one event per line. Traces are separated by {"op":"reset"}.

use bc_components::{DigestProvider, SymmetricKey};
use bc_envelope::base::envelope::EnvelopeCase;
use bc_envelope::prelude::*;
use bcenv_verif_harness::pool::{pool, PV};
use rand::rngs::StdRng;
use rand::seq::SliceRandom;
use rand::{Rng, SeedableRng};
use serde_json::{json, Value};
use std::collections::HashMap;
use std::io::Write;

struct Tracer {
    rng: StdRng,
    regs: Vec<Option<Envelope>>,
    digests: HashMap<Vec<u8>, u64>,
    atoms: HashMap<Vec<u8>, String>,
    keys: Vec<(String, SymmetricKey)>,
    nonces: HashMap<Vec<u8>, u64>,
    pool: Vec<PV>,
    out: Vec<Value>,
}

fn arg(args: &[String], name: &str) -> Option<String> {
    args.iter().position(|a| a == name).and_then(|i| args.get(i + 1).cloned())
}

impl Tracer {
    fn did(&mut self, d: &[u8]) -> u64 {
        let n = self.digests.len() as u64 + 1;
        *self.digests.entry(d.to_vec()).or_insert(n)
    }
    fn atom(&mut self, cbor_bytes: Vec<u8>, salt: bool) -> Value {
        let n = self.atoms.len() + 1;
        let name = self.atoms.entry(cbor_bytes).or_insert_with(|| format!("x{}", n)).clone();
        if salt {
            // a salt leaf: the specification only knows it is a salt; its identity is the interned name
            json!(["saltv", name])
        } else {
            json!(["v", name])
        }
    }
    /// Annotated abstract projection of a real envelope.
    fn project(&mut self, e: &Envelope) -> Value {
        let id = self.did(e.digest().data());
        match e.case() {
            EnvelopeCase::Leaf { cbor, .. } => {
                let is_salt = bc_components::Salt::try_from(cbor.clone()).is_ok();
                let a = self.atom(cbor.to_cbor_data(), is_salt);
                json!(["leaf", a, id])
            }
            EnvelopeCase::KnownValue { value, .. } => json!(["kv", value.value(), id]),
            EnvelopeCase::Assertion(a) => {
                let p = self.project(&a.predicate());
                let o = self.project(&a.object());
                json!(["assn", p, o, id])
            }
            EnvelopeCase::Wrapped { envelope, .. } => {
                let i = self.project(envelope);
                json!(["wrap", i, id])
            }
            EnvelopeCase::Node { subject, assertions, .. } => {
                let s = self.project(subject);
                let a: Vec<Value> = assertions.iter().map(|x| self.project(x)).collect();
                json!(["node", s, a, id])
            }
            EnvelopeCase::Elided(_) => json!(["elided", id]),
            EnvelopeCase::Encrypted(msg) => {
                // which key opens it?
                let mut found = None;
                for (name, k) in self.keys.clone() {
                    if let Ok(plain) = k.decrypt(msg) {
                        found = Some((name, plain));
                        break;
                    }
                }
                let nn = self.nonces.len() as u64 + 1;
                let nonce = *self.nonces.entry(msg.nonce().data().to_vec()).or_insert(nn);
                match found {
                    Some((name, plain)) => {
                        let inner = Envelope::try_from_cbor_data(plain).expect("plaintext envelope");
                        let p = self.project(&inner);
                        json!(["enc", id, name, nonce, p, "ok"])
                    }
                    None => json!(["enc", id, "unknown", nonce, ["none"], "bad"]),
                }
            }
            EnvelopeCase::Compressed(c) => match c.uncompress().ok().and_then(|b| Envelope::try_from_cbor_data(b).ok()) {
                Some(inner) => {
                    let p = self.project(&inner);
                    json!(["comp", id, p, "ok"])
                }
                None => json!(["comp", id, ["none"], "bad"]),
            },
        }
    }
    fn sorted_everywhere(&self, e: &Envelope) -> bool {
        match e.case() {
            EnvelopeCase::Node { subject, assertions, .. } => {
                assertions.windows(2).all(|w| w[0].digest().data() < w[1].digest().data())
                    && self.sorted_everywhere(subject)
                    && assertions.iter().all(|a| self.sorted_everywhere(a))
            }
            EnvelopeCase::Assertion(a) => self.sorted_everywhere(&a.predicate()) && self.sorted_everywhere(&a.object()),
            EnvelopeCase::Wrapped { envelope, .. } => self.sorted_everywhere(envelope),
            EnvelopeCase::Encrypted(msg) => {
                for (_name, k) in self.keys.iter() {
                    if let Ok(plain) = k.decrypt(msg) {
                        return Envelope::try_from_cbor_data(plain).map(|i| self.sorted_everywhere(&i)).unwrap_or(true);
                    }
                }
                true
            }
            EnvelopeCase::Compressed(c) => c.uncompress().ok().and_then(|b| Envelope::try_from_cbor_data(b).ok()).map(|i| self.sorted_everywhere(&i)).unwrap_or(true),
            _ => true,
        }
    }
    fn full(&self) -> Vec<usize> {
        (0..self.regs.len()).filter(|i| self.regs[*i].is_some()).collect()
    }
    fn pick_full(&mut self) -> Option<usize> {
        let f = self.full();
        f.choose(&mut self.rng).cloned()
    }
    fn emit(&mut self, op: &str, args: Value, dst: usize, r: Result<Envelope, String>, extra: Value) {
        match r {
            Ok(e) => {
                let res = self.project(&e);
                // canonical form of what the call returned (C04 / C05 on large envelopes): stored assertions
                // strictly ascending by digest at every node, also inside what decrypts / inflates; the
                // encoding decodes back to an identical envelope with identical bytes
                let mut extra = extra;
                let bytes = e.tagged_cbor().to_cbor_data();
                let back = Envelope::try_from_cbor_data(bytes.clone());
                let reencode = match &back {
                    Ok(b) => b.is_identical_to(&e) && b.tagged_cbor().to_cbor_data() == bytes,
                    Err(_) => false,
                };
                if let Some(m) = extra.as_object_mut() {
                    m.insert("sorted".into(), json!(self.sorted_everywhere(&e)));
                    m.insert("reencode".into(), json!(reencode));
                }
                self.regs[dst] = Some(e);
                self.out.push(json!({"op": op, "args": args, "dst": dst + 1, "out": "ok", "res": res, "extra": extra}));
            }
            Err(k) => {
                self.out.push(json!({"op": op, "args": args, "dst": dst + 1, "out": "err", "res": ["none"], "extra": {"kind": k}}));
            }
        }
    }
    /// Paths to all elements of an envelope (steps s / p / o / w / a<digest-id>).
    fn paths(&mut self, e: &Envelope, cur: Vec<Value>, out: &mut Vec<(Vec<Value>, Envelope)>) {
        out.push((cur.clone(), e.clone()));
        match e.case() {
            EnvelopeCase::Node { subject, assertions, .. } => {
                let mut c = cur.clone();
                c.push(json!(["s"]));
                self.paths(subject, c, out);
                for a in assertions {
                    let mut c = cur.clone();
                    let id = self.did(a.digest().data());
                    c.push(json!(["a", id]));
                    self.paths(a, c, out);
                }
            }
            EnvelopeCase::Assertion(a) => {
                let mut c = cur.clone();
                c.push(json!(["p"]));
                self.paths(&a.predicate(), c, out);
                let mut c = cur.clone();
                c.push(json!(["o"]));
                self.paths(&a.object(), c, out);
            }
            EnvelopeCase::Wrapped { envelope, .. } => {
                let mut c = cur.clone();
                c.push(json!(["w"]));
                self.paths(envelope, c, out);
            }
            _ => {}
        }
    }

    fn step(&mut self) {
        let nreg = self.regs.len();
        let dst = self.rng.gen_range(0..nreg);
        let choice = self.rng.gen_range(0..100);
        let er = |e: anyhow::Error| e.to_string();
        if self.full().len() < 2 || choice < 12 {
            // new leaf / known value
            if self.rng.gen_bool(0.85) {
                let pv = self.pool.choose(&mut self.rng).unwrap().clone();
                let e = Envelope::new(pv);
                self.emit("new", json!([]), dst, Ok(e), json!({}));
            } else {
                let n = self.rng.gen_range(1..60u64);
                self.emit("new", json!([]), dst, Ok(Envelope::new(KnownValue::new(n))), json!({}));
            }
            return;
        }
        let src = self.pick_full().unwrap();
        let e = self.regs[src].clone().unwrap();
        match choice {
            12..=21 => {
                let (rp, ro) = (self.pick_full().unwrap(), self.pick_full().unwrap());
                let r = Envelope::new_assertion(self.regs[rp].clone().unwrap(), self.regs[ro].clone().unwrap());
                self.emit("new_assertion", json!([rp + 1, ro + 1]), dst, Ok(r), json!({}));
            }
            22..=36 => {
                let ra = self.pick_full().unwrap();
                let r = e.add_assertion_envelope(self.regs[ra].clone().unwrap()).map_err(er);
                self.emit("add_assertion_envelope", json!([src + 1, ra + 1]), dst, r, json!({}));
            }
            37..=38 => {
                let rt = self.pick_full().unwrap();
                let r = e.remove_assertion(self.regs[rt].clone().unwrap());
                self.emit("remove_assertion", json!([src + 1, rt + 1]), dst, Ok(r), json!({}));
            }
            39..=40 => {
                // a burst: several assertions added to one register, then some of them removed again
                // (nodes with many assertions; removal from the front / middle of the stored order)
                let tmp = (src + 1) % nreg;
                let k = self.rng.gen_range(3..=6);
                for _ in 0..k {
                    let (rp, ro) = (self.pick_full().unwrap(), self.pick_full().unwrap());
                    let a = Envelope::new_assertion(self.regs[rp].clone().unwrap(), self.regs[ro].clone().unwrap());
                    self.emit("new_assertion", json!([rp + 1, ro + 1]), tmp, Ok(a), json!({}));
                    let cur = self.regs[src].clone().unwrap();
                    let r = cur.add_assertion_envelope(self.regs[tmp].clone().unwrap()).map_err(er);
                    self.emit("add_assertion_envelope", json!([src + 1, tmp + 1]), src, r, json!({}));
                }
                // replace one of them by a fresh assertion
                {
                    let cur = self.regs[src].clone().unwrap();
                    let asv = cur.assertions();
                    if let Some(a) = asv.choose(&mut self.rng).cloned() {
                        let (rp, ro) = (self.pick_full().unwrap(), self.pick_full().unwrap());
                        let n = Envelope::new_assertion(self.regs[rp].clone().unwrap(), self.regs[ro].clone().unwrap());
                        self.emit("new_assertion", json!([rp + 1, ro + 1]), tmp, Ok(n.clone()), json!({}));
                        let id = self.did(a.digest().data());
                        let r = cur.replace_assertion(a, n).map_err(er);
                        self.emit("replace_present", json!([src + 1, id, tmp + 1]), src, r, json!({}));
                    }
                }
                for _ in 0..self.rng.gen_range(1..=3) {
                    let cur = self.regs[src].clone().unwrap();
                    let mut asv = cur.assertions();
                    asv.sort_by(|a, b| a.digest().data().cmp(b.digest().data()));
                    // prefer the front of the stored order
                    let pick = if asv.is_empty() { None } else { Some(asv[self.rng.gen_range(0..asv.len().min(3))].clone()) };
                    if let Some(a) = pick {
                        let id = self.did(a.digest().data());
                        let r = cur.remove_assertion(a);
                        self.emit("remove_present", json!([src + 1, id]), src, Ok(r), json!({}));
                    }
                }
            }
            41..=43 => {
                // remove an assertion that is present
                let asv = e.assertions();
                if let Some(a) = asv.choose(&mut self.rng).cloned() {
                    let id = self.did(a.digest().data());
                    let r = e.remove_assertion(a);
                    self.emit("remove_present", json!([src + 1, id]), dst, Ok(r), json!({}));
                }
            }
            44..=46 => {
                let rs = self.pick_full().unwrap();
                let r = e.replace_subject(self.regs[rs].clone().unwrap());
                self.emit("replace_subject", json!([src + 1, rs + 1]), dst, Ok(r), json!({}));
            }
            47..=52 => self.emit("wrap", json!([src + 1]), dst, Ok(e.wrap_envelope()), json!({})),
            53..=55 => {
                let r = e.unwrap_envelope().map_err(er);
                self.emit("unwrap", json!([src + 1]), dst, r, json!({}))
            }
            56..=58 => self.emit("subject", json!([src + 1]), dst, Ok(e.subject()), json!({})),
            59..=62 => {
                let asv = e.assertions();
                if let Some(a) = asv.choose(&mut self.rng).cloned() {
                    let id = self.did(a.digest().data());
                    self.emit("assertion_pick", json!([src + 1, id]), dst, Ok(a), json!({}));
                }
            }
            63..=64 => self.emit("elide", json!([src + 1]), dst, Ok(e.elide()), json!({})),
            65..=76 => {
                // elide_set with targets given as paths
                let mut all = vec![];
                self.paths(&e, vec![], &mut all);
                let k = self.rng.gen_range(1..=3.min(all.len()));
                let chosen: Vec<(Vec<Value>, Envelope)> = all.choose_multiple(&mut self.rng, k).cloned().collect();
                let set: std::collections::HashSet<Digest> = chosen.iter().map(|(_, x)| x.digest().into_owned()).collect();
                let revealing = self.rng.gen_bool(0.3);
                let (aname, action, keyname) = match self.rng.gen_range(0..4) {
                    0 | 1 => ("elide", ObscureAction::Elide, "".to_string()),
                    2 => ("compress", ObscureAction::Compress, "".to_string()),
                    _ => {
                        let (n, k) = self.keys.choose(&mut self.rng).unwrap().clone();
                        ("encrypt", ObscureAction::Encrypt(k), n)
                    }
                };
                let r = e.elide_set_with_action(&set, revealing, &action);
                let paths: Vec<Value> = chosen.iter().map(|(p, _)| Value::Array(p.clone())).collect();
                self.emit("elide_set", json!([src + 1, paths, revealing, aname, keyname]), dst, Ok(r), json!({}));
            }
            77..=79 => {
                let r = e.compress().map_err(er);
                self.emit("compress", json!([src + 1]), dst, r, json!({}))
            }
            80..=81 => {
                let r = e.uncompress().map_err(er);
                self.emit("uncompress", json!([src + 1]), dst, r, json!({}))
            }
            82 => {
                let r = e.compress_subject().map_err(er);
                self.emit("compress_subject", json!([src + 1]), dst, r, json!({}))
            }
            83 => {
                let r = e.uncompress_subject().map_err(er);
                self.emit("uncompress_subject", json!([src + 1]), dst, r, json!({}))
            }
            84..=87 => {
                let (n, k) = self.keys.choose(&mut self.rng).unwrap().clone();
                let r = e.encrypt_subject(&k).map_err(er);
                self.emit("encrypt_subject", json!([src + 1, n]), dst, r, json!({}))
            }
            88..=90 => {
                let (n, k) = self.keys.choose(&mut self.rng).unwrap().clone();
                let r = e.decrypt_subject(&k).map_err(er);
                self.emit("decrypt_subject", json!([src + 1, n]), dst, r, json!({}))
            }
            91..=94 => {
                let bytes = e.tagged_cbor().to_cbor_data();
                let r = Envelope::try_from_cbor_data(bytes).map_err(er);
                self.emit("encode_decode", json!([src + 1]), dst, r, json!({}))
            }
            _ => {
                let size = e.tagged_cbor().to_cbor_data().len();
                let r = e.add_salt();
                let len = new_salt_len(&e, &r);
                self.emit("add_salt", json!([src + 1]), dst, Ok(r), json!({"size": size, "len": len}));
            }
        }
    }
}

/// Length of the salt the call added: the salt assertion of `after` that `before` did not have.
fn new_salt_len(before: &Envelope, after: &Envelope) -> usize {
    let old: std::collections::HashSet<Vec<u8>> = before.assertions().iter().map(|a| a.digest().data().to_vec()).collect();
    after
        .assertions()
        .iter()
        .filter(|a| !old.contains(&a.digest().data().to_vec()))
        .filter_map(|a| a.as_object())
        .filter_map(|o| o.extract_subject::<bc_components::Salt>().ok())
        .map(|s| s.len())
        .max()
        .unwrap_or(0)
}

fn main() {
    let args: Vec<String> = std::env::args().collect();
    let seed: u64 = arg(&args, "--seed").and_then(|s| s.parse().ok()).unwrap_or(1);
    let traces: usize = arg(&args, "--traces").and_then(|s| s.parse().ok()).unwrap_or(10);
    let len: usize = arg(&args, "--len").and_then(|s| s.parse().ok()).unwrap_or(100);
    let nreg: usize = arg(&args, "--regs").and_then(|s| s.parse().ok()).unwrap_or(4);
    let max_elems: usize = arg(&args, "--max-elements").and_then(|s| s.parse().ok()).unwrap_or(40);
    let out = arg(&args, "--out").unwrap_or_else(|| "trace.ndjson".into());
    let mode = arg(&args, "--mode").unwrap_or_else(|| "walk".into());
    bc_envelope::register_tags();
    let mut f = std::io::BufWriter::new(std::fs::File::create(&out).expect("out"));
    let mut total = 0usize;
    if mode == "order" {
        // C01 / C04: assertions whose digests agree in their first k bytes (k = 1..4, found by a birthday
        // search) added to one subject in both orders: the order relation on digests must be the full
        // lexicographic one, whatever prefix two digests share.
        let candidates: usize = arg(&args, "--candidates").and_then(|s| s.parse().ok()).unwrap_or(300_000);
        let mut by_prefix: Vec<HashMap<Vec<u8>, u64>> = vec![HashMap::new(); 5];
        let mut pairs: Vec<(usize, u64, u64)> = vec![];
        let base = seed.wrapping_mul(1_000_000);
        for i in 0..candidates as u64 {
            let n = base + i;
            let a = Envelope::new_assertion("item", n);
            let d = a.digest().data().to_vec();
            for k in 1..=4usize {
                if let Some(prev) = by_prefix[k].get(&d[..k]) {
                    if pairs.iter().filter(|p| p.0 == k).count() < 6 {
                        pairs.push((k, *prev, n));
                    }
                } else {
                    by_prefix[k].insert(d[..k].to_vec(), n);
                }
            }
        }
        let found4 = pairs.iter().filter(|p| p.0 == 4).count();
        for (t, (k, x, y)) in pairs.iter().enumerate() {
            let mut tr = Tracer {
                rng: StdRng::seed_from_u64(seed.wrapping_add(t as u64)),
                regs: vec![None; 6],
                digests: HashMap::new(),
                atoms: HashMap::new(),
                keys: vec![("k1".into(), SymmetricKey::new())],
                nonces: HashMap::new(),
                pool: vec![],
                out: vec![],
            };
            tr.out.push(json!({"op": "reset", "args": [], "dst": 0, "out": "ok", "res": ["none"], "extra": {"nreg": 6, "shared_prefix_bytes": k}}));
            tr.emit("new", json!([]), 0, Ok(Envelope::new("subject")), json!({}));
            tr.emit("new", json!([]), 1, Ok(Envelope::new("item")), json!({}));
            tr.emit("new", json!([]), 2, Ok(Envelope::new(*x)), json!({}));
            tr.emit("new", json!([]), 3, Ok(Envelope::new(*y)), json!({}));
            let a = Envelope::new_assertion(tr.regs[1].clone().unwrap(), tr.regs[2].clone().unwrap());
            tr.emit("new_assertion", json!([2, 3]), 2, Ok(a), json!({}));
            let b = Envelope::new_assertion(tr.regs[1].clone().unwrap(), tr.regs[3].clone().unwrap());
            tr.emit("new_assertion", json!([2, 4]), 3, Ok(b), json!({}));
            // subject + a + b  and  subject + b + a
            for (first, second, dst) in [(2usize, 3usize, 4usize), (3, 2, 5)] {
                let e1 = tr.regs[0].clone().unwrap().add_assertion_envelope(tr.regs[first].clone().unwrap()).map_err(|e| e.to_string());
                tr.emit("add_assertion_envelope", json!([1, first + 1]), dst, e1, json!({}));
                let e2 = tr.regs[dst].clone().unwrap().add_assertion_envelope(tr.regs[second].clone().unwrap()).map_err(|e| e.to_string());
                tr.emit("add_assertion_envelope", json!([dst + 1, second + 1]), dst, e2, json!({}));
                let bytes = tr.regs[dst].clone().unwrap().tagged_cbor().to_cbor_data();
                tr.emit("encode_decode", json!([dst + 1]), dst, Envelope::try_from_cbor_data(bytes).map_err(|e| e.to_string()), json!({}));
            }
            for ev in &tr.out {
                writeln!(f, "{}", ev).unwrap();
                total += 1;
            }
        }
        f.flush().unwrap();
        println!("{{\"events\": {}, \"traces\": {}, \"pairs_with_4_byte_prefix\": {}}}", total, pairs.len(), found4);
        return;
    }
    if mode == "bytes" {
        // C06: byte-level mutations of valid encodings, and random bytes, given to the decoder
        let count: usize = arg(&args, "--count").and_then(|s| s.parse().ok()).unwrap_or(20000);
        let mut tr = Tracer {
            rng: StdRng::seed_from_u64(seed),
            regs: vec![None; 4],
            digests: HashMap::new(),
            atoms: HashMap::new(),
            keys: vec![("k1".into(), SymmetricKey::new()), ("k2".into(), SymmetricKey::new())],
            nonces: HashMap::new(),
            pool: pool(),
            out: vec![],
        };
        // a corpus of valid encodings from a random walk
        let mut corpus: Vec<Vec<u8>> = vec![];
        for _ in 0..1500 {
            tr.step();
            for r in tr.regs.iter().flatten() {
                if r.elements_count() <= 40 {
                    corpus.push(r.tagged_cbor().to_cbor_data());
                }
            }
            for i in 0..4 {
                if tr.regs[i].as_ref().map(|e| e.elements_count() > 40).unwrap_or(false) {
                    tr.regs[i] = None;
                }
            }
        }
        corpus.sort();
        corpus.dedup();
        std::panic::set_hook(Box::new(|_| {}));
        let mut rng = StdRng::seed_from_u64(seed ^ 0xb17e5);
        writeln!(f, "{}", json!({"op": "reset", "args": [], "dst": 0, "out": "ok", "res": ["none"], "extra": {"nreg": 1}})).unwrap();
        total += 1;
        for i in 0..count {
            let base = corpus[rng.gen_range(0..corpus.len())].clone();
            let kind = ["valid", "flip", "insert", "delete", "truncate", "random", "legacy_tag", "splice"][if i < 200 { 0 } else { rng.gen_range(1..8) }];
            let mut b = base.clone();
            match kind {
                "flip" => {
                    let p = rng.gen_range(0..b.len());
                    b[p] ^= 1 << rng.gen_range(0..8);
                }
                "insert" => {
                    let p = rng.gen_range(0..=b.len());
                    b.insert(p, rng.gen());
                }
                "delete" => {
                    let p = rng.gen_range(0..b.len());
                    b.remove(p);
                }
                "truncate" => {
                    let p = rng.gen_range(0..b.len());
                    b.truncate(p);
                }
                "random" => {
                    let n = rng.gen_range(0..40);
                    b = (0..n).map(|_| rng.gen()).collect();
                    if rng.gen_bool(0.5) {
                        b.insert(0, 0xc8);
                        b.insert(0, 0xd8);
                    }
                }
                "legacy_tag" => {
                    // rewrite one leaf tag #6.201 (d8 c9) as #6.24 (d8 18)
                    let pos: Vec<usize> = (0..b.len().saturating_sub(1)).filter(|p| b[*p] == 0xd8 && b[*p + 1] == 0xc9).collect();
                    if let Some(p) = pos.get(rng.gen_range(0..pos.len().max(1))) {
                        b[*p + 1] = 0x18;
                    }
                }
                "splice" => {
                    let other = &corpus[rng.gen_range(0..corpus.len())];
                    let p = rng.gen_range(0..b.len());
                    let q = rng.gen_range(0..other.len());
                    b.truncate(p);
                    b.extend_from_slice(&other[q..]);
                }
                _ => {}
            }
            let input = b.clone();
            let r = std::panic::catch_unwind(|| Envelope::try_from_cbor_data(input));
            let (out, re_eq, alias_eq) = match r {
                Err(_) => ("panic", false, false),
                Ok(Err(_)) => ("err", false, false),
                Ok(Ok(e)) => {
                    let re = e.tagged_cbor().to_cbor_data();
                    let eq = re == b;
                    // the only tolerated alias: #6.24 read as #6.201 (try the occurrences one subset at a time)
                    let mut alias = false;
                    if !eq && re.len() == b.len() {
                        let diff: Vec<usize> = (0..b.len()).filter(|p| b[*p] != re[*p]).collect();
                        alias = !diff.is_empty() && diff.iter().all(|p| *p > 0 && b[*p] == 0x18 && re[*p] == 0xc9 && b[*p - 1] == 0xd8);
                    }
                    ("ok", eq, alias)
                }
            };
            writeln!(f, "{}", json!({"op": "decode_bytes", "args": [kind], "dst": 0, "out": out, "res": ["none"],
                                      "extra": {"reencode_equal": re_eq, "alias_equal": alias_eq, "len": b.len(), "hex": if out == "ok" && !re_eq && !alias_eq || out == "panic" { hex::encode(&b) } else { String::new() }}})).unwrap();
            total += 1;
        }
        f.flush().unwrap();
        println!("{{\"events\": {}, \"traces\": 1, \"corpus\": {}}}", total, corpus.len());
        return;
    }
    if mode == "salt" {
        // C17: envelopes of serialized size 1 B .. 100 KB, salted repeatedly and independently
        let reps: usize = arg(&args, "--reps").and_then(|s| s.parse().ok()).unwrap_or(16);
        let mut rng = StdRng::seed_from_u64(seed);
        let mut sizes: Vec<usize> = vec![0, 1, 5, 19, 20, 21, 59, 60, 61, 100, 139, 140, 141, 159, 160, 161, 199, 200, 201, 400, 999, 1000, 1001, 4000, 9999, 20000, 50000, 100000];
        for _ in 0..12 {
            sizes.push(rng.gen_range(1..100000));
        }
        for (t, sz) in sizes.iter().enumerate() {
            let mut tr = Tracer {
                rng: StdRng::seed_from_u64(seed.wrapping_add(t as u64)),
                regs: vec![None; 4],
                digests: HashMap::new(),
                atoms: HashMap::new(),
                keys: vec![("k1".into(), SymmetricKey::new())],
                nonces: HashMap::new(),
                pool: vec![],
                out: vec![],
            };
            tr.out.push(json!({"op": "reset", "args": [], "dst": 0, "out": "ok", "res": ["none"], "extra": {"nreg": 4}}));
            let payload = "x".repeat(*sz);
            // register 1: a leaf of that size; register 2: small subject with the payload in an assertion
            tr.emit("new", json!([]), 0, Ok(Envelope::new(payload.clone())), json!({}));
            tr.emit("new", json!([]), 1, Ok(Envelope::new("s")), json!({}));
            tr.emit("new", json!([]), 2, Ok(Envelope::new("p")), json!({}));
            let a = Envelope::new_assertion(tr.regs[2].clone().unwrap(), tr.regs[0].clone().unwrap());
            tr.emit("new_assertion", json!([3, 1]), 2, Ok(a), json!({}));
            let n = tr.regs[1].clone().unwrap().add_assertion_envelope(tr.regs[2].clone().unwrap());
            tr.emit("add_assertion_envelope", json!([2, 3]), 1, n.map_err(|e| e.to_string()), json!({}));
            for i in 0..reps {
                let src = i % 2; // leaf / node with small subject
                let e = tr.regs[src].clone().unwrap();
                let size = e.tagged_cbor().to_cbor_data().len();
                let r = e.add_salt();
                let len = new_salt_len(&e, &r);
                tr.emit("add_salt", json!([src + 1]), 3, Ok(r), json!({"size": size, "len": len}));
            }
            for ev in &tr.out {
                writeln!(f, "{}", ev).unwrap();
                total += 1;
            }
        }
        f.flush().unwrap();
        println!("{{\"events\": {}, \"traces\": {}}}", total, sizes.len());
        return;
    }
    for t in 0..traces {
        let mut tr = Tracer {
            rng: StdRng::seed_from_u64(seed.wrapping_mul(1000003).wrapping_add(t as u64)),
            regs: vec![None; nreg],
            digests: HashMap::new(),
            atoms: HashMap::new(),
            keys: vec![("k1".into(), SymmetricKey::new()), ("k2".into(), SymmetricKey::new())],
            nonces: HashMap::new(),
            pool: pool(),
            out: vec![],
        };
        // HashSet / f64 NaN etc. are all fine as opaque atoms; drop nothing
        tr.out.push(json!({"op": "reset", "args": [], "dst": 0, "out": "ok", "res": ["none"], "extra": {"nreg": nreg}}));
        while tr.out.len() < len + 1 {
            tr.step();
            // keep envelopes bounded
            for i in 0..nreg {
                if let Some(e) = &tr.regs[i] {
                    if e.elements_count() > max_elems {
                        tr.regs[i] = None;
                        tr.out.push(json!({"op": "drop", "args": [i + 1], "dst": i + 1, "out": "ok", "res": ["none"], "extra": {}}));
                    }
                }
            }
        }
        for ev in &tr.out {
            writeln!(f, "{}", ev).unwrap();
            total += 1;
        }
    }
    f.flush().unwrap();
    println!("{{\"events\": {}, \"traces\": {}}}", total, traces);
}
