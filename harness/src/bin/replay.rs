//! replay: read TLC output on stdin, execute every behaviour line against the
//! real library, write a JSON report. Non-behaviour lines are copied to --tlc-log.
//!
//! Exit status: 0 always when the report could be written (the driver decides);
//! 2 on tool errors.

use bcenv_verif_harness::pool;
use bcenv_verif_harness::replay::{parse_line, replay_round, Failure, Stats};
use serde_json::{json, Value};
use std::cell::RefCell;
use std::collections::HashMap;
use std::io::{BufRead, Write};
use std::sync::mpsc::sync_channel;
use std::sync::{Arc, Mutex};

thread_local! {
    static LAST_PANIC: RefCell<String> = RefCell::new(String::new());
}

fn arg(args: &[String], name: &str) -> Option<String> {
    args.iter().position(|a| a == name).and_then(|i| args.get(i + 1).cloned())
}

struct Agg {
    stats: Stats,
    failures: Vec<(Failure, String)>,
    fail_counts: HashMap<String, u64>,
    samples: Vec<Value>,
    tool_errors: u64,
}

fn merge(a: &mut Stats, b: &Stats) {
    a.behaviours += b.behaviours;
    a.evaluations += b.evaluations;
    for (k, v) in &b.per_op {
        *a.per_op.entry(k.clone()).or_insert(0) += v;
    }
    for (k, v) in &b.per_out {
        *a.per_out.entry(k.clone()).or_insert(0) += v;
    }
    for (k, v) in &b.err_kind_notes {
        *a.err_kind_notes.entry(k.clone()).or_insert(0) += v;
    }
    for (k, v) in &b.pool_kinds {
        *a.pool_kinds.entry(k.clone()).or_insert(0) += v;
    }
    a.nontrivial.extend(b.nontrivial.iter().cloned());
}

fn main() {
    let args: Vec<String> = std::env::args().collect();
    let seed: u64 = arg(&args, "--seed").and_then(|s| s.parse().ok()).unwrap_or(1);
    let rounds: u64 = arg(&args, "--rounds").and_then(|s| s.parse().ok()).unwrap_or(2);
    let threads: usize = arg(&args, "--threads").and_then(|s| s.parse().ok()).unwrap_or(8);
    let report = arg(&args, "--report").unwrap_or_else(|| "report.json".into());
    let tlc_log = arg(&args, "--tlc-log");
    let max_fail: usize = arg(&args, "--max-failures").and_then(|s| s.parse().ok()).unwrap_or(40);
    let one = arg(&args, "--one");

    std::env::set_var("RUST_BACKTRACE", "0");
    std::env::set_var("RUST_LIB_BACKTRACE", "0");
    bc_envelope::register_tags();
    if let Err(e) = pool::selfcheck() {
        eprintln!("pool selfcheck failed: {}", e);
        std::process::exit(2);
    }
    // panics of the code under test are data: keep them quiet but remember the site
    std::panic::set_hook(Box::new(|info| {
        let loc = info.location().map(|l| format!("{}:{}:{}", l.file(), l.line(), l.column())).unwrap_or_default();
        let msg = if let Some(s) = info.payload().downcast_ref::<&str>() {
            s.to_string()
        } else if let Some(s) = info.payload().downcast_ref::<String>() {
            s.clone()
        } else {
            "panic".into()
        };
        LAST_PANIC.with(|p| *p.borrow_mut() = format!("{} @ {}", msg, loc));
    }));

    if let Some(path) = one {
        // re-execute one replay file: {"behaviour": ..., "round": r, "seed": s}
        let text = std::fs::read_to_string(&path).expect("read replay file");
        let v: Value = serde_json::from_str(&text).expect("replay file json");
        let beh = &v["behaviour"];
        let beh_text = v["behaviour_text"].as_str().map(|s| s.to_string()).unwrap_or_else(|| beh.to_string());
        let s = v["seed"].as_u64().unwrap_or(seed);
        let r = v["round"].as_u64().unwrap_or(0);
        let mut st = Stats::default();
        match run_guarded(beh, &beh_text, s, r, &mut st) {
            Ok(()) => {
                println!("replay: behaviour passes");
                std::process::exit(0)
            }
            Err(f) => {
                println!("replay: {} [{}] {}", f.kind, f.key, f.detail);
                std::process::exit(1)
            }
        }
    }

    let agg = Arc::new(Mutex::new(Agg {
        stats: Stats::default(),
        failures: vec![],
        fail_counts: HashMap::new(),
        samples: vec![],
        tool_errors: 0,
    }));
    let (tx, rx) = sync_channel::<Vec<String>>(64);
    let rx = Arc::new(Mutex::new(rx));
    let mut handles = vec![];
    for _ in 0..threads {
        let rx = rx.clone();
        let agg = agg.clone();
        handles.push(std::thread::spawn(move || {
            let mut local = Stats::default();
            let mut lf: Vec<(Failure, String)> = vec![];
            let mut lc: HashMap<String, u64> = HashMap::new();
            let mut samples: Vec<Value> = vec![];
            loop {
                let batch = {
                    let g = rx.lock().unwrap();
                    g.recv()
                };
                let batch = match batch {
                    Ok(b) => b,
                    Err(_) => break,
                };
                for line in batch {
                    let (beh, text) = match parse_line(&line) {
                        Some(x) => x,
                        None => continue,
                    };
                    local.behaviours += 1;
                    if samples.len() < 2 && beh["steps"].as_array().map(|a| a.len() >= 2).unwrap_or(false) {
                        samples.push(json!({"steps": beh["steps"], "out": beh["out"]}));
                    }
                    for r in 0..rounds {
                        if let Err(f) = run_guarded(&beh, &text, seed, r, &mut local) {
                            let c = lc.entry(f.key.clone()).or_insert(0);
                            *c += 1;
                            if *c <= 2 && lf.len() < 64 {
                                lf.push((f, text.clone()));
                            }
                            break;
                        }
                    }
                }
            }
            let mut g = agg.lock().unwrap();
            merge(&mut g.stats, &local);
            for (k, v) in lc {
                *g.fail_counts.entry(k).or_insert(0) += v;
            }
            g.failures.extend(lf);
            if g.samples.len() < 6 {
                g.samples.extend(samples);
            }
        }));
    }

    let stdin = std::io::stdin();
    let mut log = tlc_log.map(|p| std::io::BufWriter::new(std::fs::File::create(p).expect("tlc log")));
    let mut batch: Vec<String> = vec![];
    for line in stdin.lock().lines() {
        let line = match line {
            Ok(l) => l,
            Err(_) => continue,
        };
        if line.starts_with("<<\"BEH\"") {
            batch.push(line);
            if batch.len() >= 64 {
                tx.send(std::mem::take(&mut batch)).unwrap();
            }
        } else if let Some(l) = log.as_mut() {
            let _ = writeln!(l, "{}", line);
        }
    }
    if !batch.is_empty() {
        tx.send(batch).unwrap();
    }
    drop(tx);
    for h in handles {
        let _ = h.join();
    }
    if let Some(l) = log.as_mut() {
        let _ = l.flush();
    }

    let g = agg.lock().unwrap();
    let mut fails: Vec<Value> = vec![];
    // keep at most 2 examples per key, max_fail in total
    let mut per_key: HashMap<String, u32> = HashMap::new();
    for (f, text) in &g.failures {
        let c = per_key.entry(f.key.clone()).or_insert(0);
        if *c >= 2 || fails.len() >= max_fail {
            continue;
        }
        *c += 1;
        if f.kind == "tool" {
            // counted below
        }
        fails.push(json!({
            "kind": f.kind, "op": f.op, "key": f.key, "detail": f.detail, "round": f.round,
            "seed": seed, "behaviour_text": text,
        }));
    }
    let tool_errors: u64 = g.fail_counts.iter().filter(|(k, _)| k.starts_with("tool:")).map(|(_, v)| *v).sum();
    let rep = json!({
        "behaviours": g.stats.behaviours,
        "evaluations": g.stats.evaluations,
        "rounds": rounds,
        "seed": seed,
        "distinct_nontrivial": g.stats.nontrivial.len(),
        "per_op": g.stats.per_op,
        "per_out": g.stats.per_out,
        "err_kind_notes": g.stats.err_kind_notes,
        "pool_kinds": g.stats.pool_kinds,
        "failure_counts": g.fail_counts,
        "failures": fails,
        "tool_errors": tool_errors + g.tool_errors,
        "samples": g.samples,
    });
    std::fs::write(&report, serde_json::to_string_pretty(&rep).unwrap()).expect("write report");
}

fn run_guarded(beh: &Value, text: &str, seed: u64, round: u64, st: &mut Stats) -> Result<(), Failure> {
    let r = std::panic::catch_unwind(std::panic::AssertUnwindSafe(|| replay_round(beh, text, seed, round, st)));
    match r {
        Ok(mut x) => {
            if let Err(f) = x.as_mut() {
                if f.kind == "panic" || f.kind == "pre" {
                    let site = LAST_PANIC.with(|p| p.borrow().clone());
                    if f.kind == "panic" && !site.is_empty() {
                        let s = bcenv_verif_harness::replay::panic_site(&site);
                        f.key = format!("panic:{}:{}", f.op, s);
                        f.detail = format!("{} panicked: {}", f.op, site);
                    }
                }
            }
            x
        }
        Err(_) => {
            let site = LAST_PANIC.with(|p| p.borrow().clone());
            Err(Failure {
                kind: "tool".into(),
                op: "-".into(),
                key: "tool:harness-panic".into(),
                detail: format!("harness panicked: {}", site),
                round,
            })
        }
    }
}
