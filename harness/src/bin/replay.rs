//! replay: read TLC output on stdin, execute every behaviour line against the
//! real library, write a JSON report. Non-behaviour lines are copied to --tlc-log.
//!
//! Lines are dealt to worker threads by their chain root (first call), so that a
//! worker sees every behaviour after the behaviour that is its prefix.

use bcenv_verif_harness::pool;
use bcenv_verif_harness::replay::{fnv, panic_site, root_of, unescape_line, Failure, Replayer, Stats};
use serde_json::{json, Value};
use std::cell::RefCell;
use std::collections::HashMap;
use std::io::{BufRead, Write};
use std::sync::mpsc::sync_channel;
use std::sync::{Arc, Mutex};

thread_local! {
    static LAST_PANIC: RefCell<String> = RefCell::new(String::new());
}

fn arg(args: &[String], name: &str) -> Option<String> {
    args.iter().position(|a| a == name).and_then(|i| args.get(i + 1).cloned())
}

struct Agg {
    stats: Stats,
    failures: Vec<(Failure, String)>,
    fail_counts: HashMap<String, u64>,
    samples: Vec<Value>,
}

fn merge(a: &mut Stats, b: &Stats) {
    a.behaviours += b.behaviours;
    a.evaluations += b.evaluations;
    a.cache_hits += b.cache_hits;
    a.cache_misses += b.cache_misses;
    a.skipped_after_failed_prefix += b.skipped_after_failed_prefix;
    for (k, v) in &b.per_op {
        *a.per_op.entry(k.clone()).or_insert(0) += v;
    }
    for (k, v) in &b.per_out {
        *a.per_out.entry(k.clone()).or_insert(0) += v;
    }
    for (k, v) in &b.err_kind_notes {
        *a.err_kind_notes.entry(k.clone()).or_insert(0) += v;
    }
    for (k, v) in &b.pool_kinds {
        *a.pool_kinds.entry(k.clone()).or_insert(0) += v;
    }
    a.nontrivial.extend(b.nontrivial.iter().cloned());
}

fn guarded(rp: &mut Replayer, beh: &Value) -> Result<(), Failure> {
    let r = std::panic::catch_unwind(std::panic::AssertUnwindSafe(|| rp.replay(beh)));
    match r {
        Ok(mut x) => {
            if let Err(f) = x.as_mut() {
                if f.kind == "panic" {
                    let site = LAST_PANIC.with(|p| p.borrow().clone());
                    if !site.is_empty() {
                        f.key = format!("panic:{}:{}", f.op, panic_site(&site));
                        f.detail = format!("{} panicked: {}", f.op, site);
                    }
                }
            }
            x
        }
        Err(_) => {
            let site = LAST_PANIC.with(|p| p.borrow().clone());
            Err(Failure { kind: "tool".into(), op: "-".into(), key: "tool:harness-panic".into(), detail: format!("harness panicked: {}", site), round: 0 })
        }
    }
}

fn main() {
    let args: Vec<String> = std::env::args().collect();
    let seed: u64 = arg(&args, "--seed").and_then(|s| s.parse().ok()).unwrap_or(1);
    let rounds: u64 = arg(&args, "--rounds").and_then(|s| s.parse().ok()).unwrap_or(2);
    let threads: usize = arg(&args, "--threads").and_then(|s| s.parse().ok()).unwrap_or(8);
    let report = arg(&args, "--report").unwrap_or_else(|| "report.json".into());
    let tlc_log = arg(&args, "--tlc-log");
    let max_fail: usize = arg(&args, "--max-failures").and_then(|s| s.parse().ok()).unwrap_or(40);
    let one = arg(&args, "--one");

    std::env::set_var("RUST_BACKTRACE", "0");
    std::env::set_var("RUST_LIB_BACKTRACE", "0");
    bc_envelope::register_tags();
    if let Err(e) = pool::selfcheck() {
        eprintln!("pool selfcheck failed: {}", e);
        std::process::exit(2);
    }
    if let Err(e) = bcenv_verif_harness::vectors::selfcheck() {
        eprintln!("draft test vector selfcheck failed: {}", e);
        std::process::exit(2);
    }
    // panics of the code under test are data: keep them quiet but remember the site
    std::panic::set_hook(Box::new(|info| {
        let loc = info.location().map(|l| format!("{}:{}:{}", l.file(), l.line(), l.column())).unwrap_or_default();
        let msg = if let Some(s) = info.payload().downcast_ref::<&str>() {
            s.to_string()
        } else if let Some(s) = info.payload().downcast_ref::<String>() {
            s.clone()
        } else {
            "panic".into()
        };
        let msg = msg.lines().next().unwrap_or("").to_string();
        LAST_PANIC.with(|p| *p.borrow_mut() = format!("{} @ {}", msg, loc));
    }));

    if let Some(path) = one {
        // re-execute one replay file: {"behaviour": ..., "seed": s}
        let text = std::fs::read_to_string(&path).expect("read replay file");
        let v: Value = serde_json::from_str(&text).expect("replay file json");
        let beh = if v["behaviour"].is_object() { v["behaviour"].clone() } else { serde_json::from_str(v["behaviour_text"].as_str().unwrap_or("{}")).unwrap_or(Value::Null) };
        let s = v["seed"].as_u64().unwrap_or(seed);
        let mut rp = Replayer::new(s, v["rounds"].as_u64().unwrap_or(rounds).max(v["round"].as_u64().unwrap_or(0) + 1));
        match guarded(&mut rp, &beh) {
            Ok(()) => {
                println!("replay: behaviour passes");
                std::process::exit(0)
            }
            Err(f) => {
                println!("replay: {} [{}] {}", f.kind, f.key, f.detail);
                std::process::exit(1)
            }
        }
    }

    let agg = Arc::new(Mutex::new(Agg { stats: Stats::default(), failures: vec![], fail_counts: HashMap::new(), samples: vec![] }));
    let mut txs = vec![];
    let mut handles = vec![];
    for _ in 0..threads {
        let (tx, rx) = sync_channel::<Vec<String>>(256);
        txs.push(tx);
        let agg = agg.clone();
        handles.push(
            std::thread::Builder::new()
                .stack_size(256 << 20)
                .spawn(move || {
                    let mut rp = Replayer::new(seed, rounds);
                    let mut lf: Vec<(Failure, String)> = vec![];
                    let mut lc: HashMap<String, u64> = HashMap::new();
                    let mut samples: Vec<Value> = vec![];
                    while let Ok(batch) = rx.recv() {
                        for text in batch {
                            let beh: Value = match serde_json::from_str(&text) {
                                Ok(v) => v,
                                Err(_) => continue,
                            };
                            if samples.len() < 2 && beh["steps"].as_array().map(|a| a.len() >= 2).unwrap_or(false) {
                                samples.push(json!({"steps": beh["steps"], "out": beh["out"]}));
                            }
                            if let Err(f) = guarded(&mut rp, &beh) {
                                if f.kind == "skip" {
                                    continue;
                                }
                                let c = lc.entry(f.key.clone()).or_insert(0);
                                *c += 1;
                                if *c <= 2 && lf.len() < 64 {
                                    lf.push((f, text.clone()));
                                }
                            }
                        }
                    }
                    let mut g = agg.lock().unwrap();
                    merge(&mut g.stats, &rp.stats);
                    for (k, v) in lc {
                        *g.fail_counts.entry(k).or_insert(0) += v;
                    }
                    g.failures.extend(lf);
                    if g.samples.len() < 6 {
                        g.samples.extend(samples);
                    }
                })
                .unwrap(),
        );
    }

    let stdin = std::io::stdin();
    let mut log = tlc_log.map(|p| std::io::BufWriter::new(std::fs::File::create(p).expect("tlc log")));
    let mut batches: Vec<Vec<String>> = vec![vec![]; threads];
    for line in stdin.lock().lines() {
        let line = match line {
            Ok(l) => l,
            Err(_) => continue,
        };
        if line.starts_with("<<\"BEH\"") {
            if let Some(inner) = unescape_line(&line) {
                let w = (fnv(root_of(&inner).unwrap_or("")) % threads as u64) as usize;
                batches[w].push(inner);
                if batches[w].len() >= 32 {
                    txs[w].send(std::mem::take(&mut batches[w])).unwrap();
                }
            }
        } else if let Some(l) = log.as_mut() {
            let _ = writeln!(l, "{}", line);
        }
    }
    for (w, b) in batches.into_iter().enumerate() {
        if !b.is_empty() {
            txs[w].send(b).unwrap();
        }
    }
    drop(txs);
    for h in handles {
        let _ = h.join();
    }
    if let Some(l) = log.as_mut() {
        let _ = l.flush();
    }

    let g = agg.lock().unwrap();
    let mut fails: Vec<Value> = vec![];
    let mut per_key: HashMap<String, u32> = HashMap::new();
    for (f, text) in &g.failures {
        let c = per_key.entry(f.key.clone()).or_insert(0);
        if *c >= 2 || fails.len() >= max_fail {
            continue;
        }
        *c += 1;
        fails.push(json!({
            "kind": f.kind, "op": f.op, "key": f.key, "detail": f.detail, "round": f.round,
            "seed": seed, "rounds": rounds, "behaviour_text": text,
        }));
    }
    let tool_errors: u64 = g.fail_counts.iter().filter(|(k, _)| k.starts_with("tool:")).map(|(_, v)| *v).sum();
    let rep = json!({
        "behaviours": g.stats.behaviours,
        "evaluations": g.stats.evaluations,
        "rounds": rounds,
        "seed": seed,
        "distinct_nontrivial": g.stats.nontrivial.len(),
        "per_op": g.stats.per_op,
        "per_out": g.stats.per_out,
        "err_kind_notes": g.stats.err_kind_notes,
        "pool_kinds": g.stats.pool_kinds,
        "failure_counts": g.fail_counts,
        "failures": fails,
        "tool_errors": tool_errors,
        "samples": g.samples,
        "extra": {"prefix_cache_hits": g.stats.cache_hits, "prefix_cache_misses": g.stats.cache_misses, "skipped_after_failed_prefix": g.stats.skipped_after_failed_prefix},
    });
    std::fs::write(&report, serde_json::to_string_pretty(&rep).unwrap()).expect("write report");
}
