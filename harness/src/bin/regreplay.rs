//! Replays the behaviours of spec/Registry.tla into the real name registries and format context:
//! every step is executed on real KnownValuesStore / FunctionsStore / ParametersStore objects (and a
//! FormatContext made from them), then the full projection the specification gives for the reached
//! state is compared with the answers of the query API and with format() of probe envelopes.
//!
//!   tlc ... Registry.tla | regreplay --report FILE [--tlc-log FILE]
use bc_envelope::extension::expressions::{Function, FunctionsStore, Parameter, ParametersStore};
use bc_envelope::prelude::*;
use bc_envelope::{FormatContext, KnownValuesStore};
use bcenv_verif_harness::replay::unescape_line;
use serde_json::{json, Value};
use std::collections::BTreeMap;
use std::io::{BufRead, Write};

struct State {
    kv: KnownValuesStore,
    fns: FunctionsStore,
    pms: ParametersStore,
    ctx: FormatContext,
}

fn opt_name(v: &Value) -> Option<String> {
    match v.as_str() {
        Some("~") | None => None,
        Some(s) => Some(s.to_string()),
    }
}

fn run_steps(steps: &[Value]) -> Result<State, String> {
    let mut st = State { kv: KnownValuesStore::default(), fns: FunctionsStore::default(), pms: ParametersStore::default(), ctx: FormatContext::default() };
    for s in steps {
        let op = s[0].as_str().ok_or("op")?;
        match op {
            "kv_insert" => {
                let c = s[1].as_u64().ok_or("code")?;
                let kv = match opt_name(&s[2]) {
                    Some(n) => KnownValue::new_with_name(c, n),
                    None => KnownValue::new(c),
                };
                st.kv.insert(kv);
            }
            "fn_insert" => st.fns.insert(Function::new_known(s[1].as_u64().ok_or("code")?, opt_name(&s[2]))),
            "pm_insert" => st.pms.insert(Parameter::new_known(s[1].as_u64().ok_or("code")?, opt_name(&s[2]))),
            "make_context" => {
                let mut c = FormatContext::new(false, None, Some(&st.kv), Some(&st.fns), Some(&st.pms));
                if s[1].as_bool().ok_or("reg")? {
                    bc_envelope::register_tags_in(&mut c);
                }
                st.ctx = c;
            }
            other => return Err(format!("unknown step {}", other)),
        }
    }
    Ok(st)
}

fn some(x: Option<String>) -> Value {
    match x {
        Some(s) => json!(["some", s]),
        None => json!(["none"]),
    }
}

/// What the specification's summary term stands for as text.
fn summ_text(t: &Value) -> String {
    let kind = t[1].as_str().unwrap_or("");
    match t[0].as_str().unwrap_or("") {
        "named" => {
            let n = t[2].as_str().unwrap_or("");
            match kind {
                "fn" => format!("\u{ab}{}\u{bb}", n),
                "pm" => format!("\u{2770}{}\u{2771}", n),
                _ => format!("'{}'", n),
            }
        }
        _ => {
            let tag = match kind { "fn" => 40006, "pm" => 40007, _ => 40000 };
            format!("{}({})", tag, t[2])
        }
    }
}

fn compare(st: &State, proj: &Value, codes: &[u64], names: &[String]) -> Result<(), String> {
    let chk = |what: &str, got: Value, want: &Value| -> Result<(), String> {
        if &got == want { Ok(()) } else { Err(format!("{}: library {} specification {}", what, got, want)) }
    };
    for (i, c) in codes.iter().enumerate() {
        let kv = KnownValue::new(*c);
        chk(&format!("kv.assigned_name({})", c), some(st.kv.assigned_name(&kv).map(|s| s.to_string())), &proj["kv_assigned"][i])?;
        chk(&format!("kv.name({})", c), json!(st.kv.name(kv.clone())), &proj["kv_name"][i])?;
        chk(&format!("name_for_known_value({})", c), json!(KnownValuesStore::name_for_known_value(kv.clone(), Some(&st.kv))), &proj["kv_name"][i])?;
        chk(&format!("known_value_for_raw_value({}).name()", c), json!(KnownValuesStore::known_value_for_raw_value(*c, Some(&st.kv)).name()), &proj["kv_raw_name"][i])?;
        let f = Function::new_known(*c, None);
        chk(&format!("fns.assigned_name({})", c), some(st.fns.assigned_name(&f).map(|s| s.to_string())), &proj["fn_assigned"][i])?;
        chk(&format!("fns.name({})", c), json!(st.fns.name(&f)), &proj["fn_name"][i])?;
        chk(&format!("name_for_function({})", c), json!(FunctionsStore::name_for_function(&f, Some(&st.fns))), &proj["fn_name"][i])?;
        let p = Parameter::new_known(*c, None);
        chk(&format!("pms.assigned_name({})", c), some(st.pms.assigned_name(&p).map(|s| s.to_string())), &proj["pm_assigned"][i])?;
        chk(&format!("pms.name({})", c), json!(st.pms.name(&p)), &proj["pm_name"][i])?;
        chk(&format!("name_for_parameter({})", c), json!(ParametersStore::name_for_parameter(&p, Some(&st.pms))), &proj["pm_name"][i])?;
        // formatting under the context
        let kv_case = Envelope::new(KnownValue::new(*c)).format_opt(Some(&st.ctx));
        chk(&format!("format(known value {})", c), json!(kv_case), &json!(format!("'{}'", proj["fmt_kv_case"][i].as_str().unwrap_or(""))))?;
        let expr = Envelope::new(Function::new_known(*c, None)).add_assertion(Parameter::new_known(*c, None), 1);
        let want_expr = format!("{} [\n    {}: 1\n]", summ_text(&proj["fmt_fn_leaf"][i]), summ_text(&proj["fmt_pm_leaf"][i]));
        chk(&format!("format(expression {})", c), json!(expr.format_opt(Some(&st.ctx))), &json!(want_expr))?;
        let tagged = dcbor::CBOR::to_tagged_value(40000u64, *c);
        let leaf = Envelope::new(tagged);
        if !leaf.is_leaf() {
            return Err("probe: a tagged known value given as CBOR is not a leaf".into());
        }
        chk(&format!("format(leaf holding tagged known value {})", c), json!(leaf.format_opt(Some(&st.ctx))), &json!(summ_text(&proj["fmt_kv_leaf"][i])))?;
        // tree_format of the known-value envelope consults the same store
        let tree = Envelope::new(KnownValue::new(*c)).tree_format_opt(true, Some(&st.ctx));
        chk(&format!("tree_format(known value {})", c), json!(tree), &json!(format!("'{}'", proj["fmt_kv_case"][i].as_str().unwrap_or(""))))?;
    }
    for n in names {
        let got = st.kv.known_value_named(n).map(|k| k.value());
        let got2 = KnownValuesStore::known_value_for_name(n, Some(&st.kv)).map(|k| k.value());
        let want = &proj["kv_named"][n];
        let g = match got { Some(v) => json!(["some", v]), None => json!(["none"]) };
        chk(&format!("known_value_named({})", n), g, want)?;
        if got != got2 {
            return Err(format!("known_value_named and known_value_for_name disagree on {}", n));
        }
    }
    Ok(())
}

fn main() {
    let args: Vec<String> = std::env::args().collect();
    let arg = |n: &str| args.iter().position(|a| a == n).and_then(|i| args.get(i + 1).cloned());
    if let Some(path) = arg("--one") {
        // re-run one recorded behaviour (a violation file written by ./check)
        let doc: Value = serde_json::from_str(&std::fs::read_to_string(&path).expect("violation file")).expect("json");
        let beh: Value = serde_json::from_str(doc["behaviour_text"].as_str().expect("behaviour_text")).expect("behaviour");
        let steps = beh["steps"].as_array().cloned().unwrap_or_default();
        let proj = &beh["projection"];
        let ncodes = proj["kv_name"].as_array().map(|a| a.len()).unwrap_or(0);
        let codes: Vec<u64> = (1..=ncodes as u64).collect();
        let names: Vec<String> = proj["kv_named"].as_object().map(|m| m.keys().cloned().collect()).unwrap_or_default();
        match run_steps(&steps).and_then(|st| compare(&st, proj, &codes, &names)) {
            Ok(()) => { println!("replay: the behaviour {} now conforms", beh["steps"]); std::process::exit(0) }
            Err(m) => { println!("replay: {} -> {}", beh["steps"], m); std::process::exit(1) }
        }
    }
    let report = arg("--report").unwrap_or_else(|| "registry_report.json".into());
    let tlc_log = arg("--tlc-log");
    let mut log = tlc_log.map(|p| std::fs::File::create(p).expect("tlc log"));
    let stdin = std::io::stdin();
    let (mut behaviours, mut evaluations) = (0u64, 0u64);
    let mut per_op: BTreeMap<String, u64> = BTreeMap::new();
    let mut failure_counts: BTreeMap<String, u64> = BTreeMap::new();
    let mut failures: Vec<Value> = vec![];
    let mut tool_errors = 0u64;
    let mut sample: Option<Value> = None;
    for line in stdin.lock().lines() {
        let line = match line { Ok(l) => l, Err(_) => break };
        if !line.starts_with("<<\"BEH\"") {
            if let Some(f) = log.as_mut() { let _ = writeln!(f, "{}", line); }
            continue;
        }
        let inner = match unescape_line(&line) { Some(s) => s, None => { tool_errors += 1; continue } };
        let beh: Value = match serde_json::from_str(&inner) { Ok(v) => v, Err(_) => { tool_errors += 1; continue } };
        behaviours += 1;
        let steps = beh["steps"].as_array().cloned().unwrap_or_default();
        let last = steps.last().and_then(|s| s[0].as_str()).unwrap_or("").to_string();
        *per_op.entry(last.clone()).or_insert(0) += 1;
        let proj = &beh["projection"];
        let ncodes = proj["kv_name"].as_array().map(|a| a.len()).unwrap_or(0);
        let codes: Vec<u64> = (1..=ncodes as u64).collect();
        let names: Vec<String> = proj["kv_named"].as_object().map(|m| m.keys().cloned().collect()).unwrap_or_default();
        let r = std::panic::catch_unwind(|| run_steps(&steps).and_then(|st| compare(&st, proj, &codes, &names)));
        evaluations += 1 + (codes.len() as u64) * 14 + names.len() as u64 * 2;
        let fail = match r {
            Ok(Ok(())) => None,
            Ok(Err(m)) => Some(("registry".to_string(), m)),
            Err(_) => Some(("panic".to_string(), "a registry call panicked".to_string())),
        };
        if sample.is_none() { sample = Some(beh.clone()); }
        if let Some((kind, m)) = fail {
            let what = m.split(':').next().unwrap_or("").split('(').next().unwrap_or("").to_string();
            let key = format!("{}:{}:{}", kind, last, what);
            *failure_counts.entry(key.clone()).or_insert(0) += 1;
            if failures.iter().filter(|f| f["key"] == json!(key)).count() < 2 {
                failures.push(json!({"kind": kind, "op": last, "key": key, "detail": m, "round": 0, "seed": 0, "behaviour_text": inner}));
            }
        }
    }
    let rep = json!({"behaviours": behaviours, "evaluations": evaluations, "rounds": 1, "seed": 0, "distinct_nontrivial": behaviours,
        "per_op": per_op, "per_out": {}, "failure_counts": failure_counts, "failures": failures, "tool_errors": tool_errors,
        "samples": sample.map(|s| vec![s]).unwrap_or_default(), "err_kind_notes": {}, "extra": {}});
    std::fs::write(&report, serde_json::to_string(&rep).unwrap()).expect("report");
    println!("{}", json!({"behaviours": behaviours, "failures": rep["failure_counts"], "tool_errors": tool_errors}));
}
