//! C20 driver: lock-program extraction and multi-thread stress runs, using the
//! cfg-guarded hooks of bc-envelope (src/verif_hooks.rs).
//!
//!   locks kinds                         list the call kinds
//!   locks extract-one <kind>            (child) run the call twice in this fresh process, print events
//!   locks extract --out FILE            spawn one child per kind, write JSON {kind: {first:[..], later:[..], text:..}}
//!   locks stress-child --threads N --calls K --seed S    (child) race N threads on first use
//!   locks stress --threads N --rounds R --calls K --seed S --out FILE --ref FILE
//!                                       spawn children with a watchdog, compare results, write events

use bc_envelope::prelude::*;
use bc_envelope::verif_hooks as hooks;
use rand::rngs::StdRng;
use rand::{Rng, SeedableRng};
use serde_json::{json, Value};
use std::io::Read;
use std::process::{Command, Stdio};
use std::sync::{Arc, Barrier};
use std::time::{Duration, Instant};

const KINDS: &[&str] = &[
    "format", "format_flat", "tree_format", "diagnostic_annotated", "hex", "register_tags", "kv_lookup", "fn_lookup", "param_lookup", "encode", "ur",
    "kv_held_format", "custom_tag",
];

/// Tags registered by `custom_tag` calls of this process (checked after all threads have finished).
static CUSTOM: std::sync::Mutex<Vec<u64>> = std::sync::Mutex::new(Vec::new());
static NEXT_CUSTOM: std::sync::atomic::AtomicU64 = std::sync::atomic::AtomicU64::new(0x7000_0000);

fn sample() -> Envelope {
    Envelope::new("Alice")
        .add_assertion(known_values::NOTE, "a note")
        .add_assertion("knows", Envelope::new("Bob").add_assertion(known_values::IS_A, known_values::ENTITY))
        .add_assertion("digest", Digest::from_image(b"x"))
        .add_assertion("when", dcbor::Date::from_timestamp(1_700_000_000.0))
        .add_assertion(KnownValue::new(100_000), Envelope::new(7).wrap_envelope())
        // long text leaves with multi-byte characters at every alignment (summaries truncate long text)
        .add_assertion("t1", "\u{e9}".repeat(30))
        .add_assertion("t2", format!("a{}", "\u{e9}".repeat(30)))
        .add_assertion("t3", "\u{6f22}".repeat(20))
        .add_assertion("t4", format!("ab{}", "\u{6f22}".repeat(20)))
        .add_assertion("t5", format!("a{}", "\u{1f600}".repeat(12)))
        // function and parameter names come from registries that register_tags() installs in the format
        // context: this part of the text is one thing before a registration and another after it
        .add_assertion("expr", bc_envelope::Expression::new(bc_envelope::functions::ADD)
            .with_parameter(bc_envelope::parameters::LHS, 2).with_parameter(bc_envelope::parameters::RHS, 3))
}

/// Run one call kind; the returned text is what the property compares.
fn run_kind(kind: &str) -> String {
    let e = sample();
    match kind {
        "format" => e.format(),
        "format_flat" => e.format_flat(),
        "tree_format" => e.tree_format(false),
        "diagnostic_annotated" => e.diagnostic_annotated(),
        "hex" => e.hex(),
        "register_tags" => {
            bc_envelope::register_tags();
            "ok".into()
        }
        "kv_lookup" => {
            let binding = known_values::KNOWN_VALUES.get();
            #[allow(unused_variables)]
            let mark = hooks::ReleaseMark("KV");
            let store = binding.as_ref().unwrap();
            store.known_value_named("isA").map(|k| k.value().to_string()).unwrap_or_default()
        }
        "fn_lookup" => {
            let binding = bc_envelope::extension::expressions::GLOBAL_FUNCTIONS.get();
            #[allow(unused_variables)]
            let mark = hooks::ReleaseMark("FN");
            let store = binding.as_ref().unwrap();
            bc_envelope::extension::expressions::FunctionsStore::name_for_function(&bc_envelope::functions::ADD, Some(store))
        }
        "param_lookup" => {
            let binding = bc_envelope::extension::expressions::GLOBAL_PARAMETERS.get();
            #[allow(unused_variables)]
            let mark = hooks::ReleaseMark("PARAM");
            let store = binding.as_ref().unwrap();
            bc_envelope::extension::expressions::ParametersStore::name_for_parameter(&bc_envelope::parameters::LHS, Some(store))
        }
        "kv_held_format" => {
            // a caller consults the known-values registry and formats while still holding its guard
            // (after the format context has been initialised by an earlier formatting call)
            let _first = e.format();
            let binding = known_values::KNOWN_VALUES.get();
            #[allow(unused_variables)]
            let mark = hooks::ReleaseMark("KV");
            let name = binding.as_ref().unwrap().known_value_named("note").map(|k| k.value()).unwrap_or(0);
            let second = e.format();
            format!("{}|{}", name, second)
        }
        "custom_tag" => {
            // an application registers a tag of its own in the global format context
            use dcbor::prelude::*;
            let v = NEXT_CUSTOM.fetch_add(1, std::sync::atomic::Ordering::SeqCst);
            bc_envelope::with_format_context_mut!(|c: &mut bc_envelope::FormatContext| {
                c.tags_mut().insert(Tag::new(v, format!("verif-{}", v)));
            });
            CUSTOM.lock().unwrap().push(v);
            "ok".into()
        }
        "encode" => hex::encode(e.tagged_cbor().to_cbor_data()),
        "ur" => {
            // ur_string needs the dcbor tag registry to know tag 200: documented precondition
            bc_components::register_tags();
            e.ur_string()
        }
        _ => panic!("kind"),
    }
}

fn arg(args: &[String], name: &str) -> Option<String> {
    args.iter().position(|a| a == name).and_then(|i| args.get(i + 1).cloned())
}

fn events_json(ev: &[hooks::Event]) -> Vec<Value> {
    ev.iter().map(|(t, s, k, l)| json!([t, s, k, l])).collect()
}

fn spawn_self(args: &[String], timeout: Duration) -> Result<String, String> {
    let exe = std::env::current_exe().map_err(|e| e.to_string())?;
    let mut child = Command::new(exe).args(args).stdout(Stdio::piped()).stderr(Stdio::piped()).spawn().map_err(|e| e.to_string())?;
    // drain the pipes while waiting, or a child with much output blocks on a full pipe
    let mut so = child.stdout.take().unwrap();
    let mut se = child.stderr.take().unwrap();
    let ho = std::thread::spawn(move || {
        let mut s = String::new();
        so.read_to_string(&mut s).ok();
        s
    });
    let he = std::thread::spawn(move || {
        let mut s = String::new();
        se.read_to_string(&mut s).ok();
        s
    });
    let start = Instant::now();
    loop {
        match child.try_wait() {
            Ok(Some(status)) => {
                let out = ho.join().unwrap_or_default();
                let err = he.join().unwrap_or_default();
                if !status.success() {
                    return Err(format!("child failed ({}): {}", status, err.chars().take(600).collect::<String>()));
                }
                return Ok(out);
            }
            Ok(None) => {
                if start.elapsed() > timeout {
                    let _ = child.kill();
                    let _ = child.wait();
                    return Err("TIMEOUT".into());
                }
                std::thread::sleep(Duration::from_millis(5));
            }
            Err(e) => return Err(e.to_string()),
        }
    }
}

fn main() {
    let args: Vec<String> = std::env::args().collect();
    let cmd = args.get(1).map(|s| s.as_str()).unwrap_or("");
    match cmd {
        "kinds" => println!("{}", json!(KINDS)),
        "extract-one" => {
            let kind = args[2].as_str();
            hooks::enable(true);
            let t1 = run_kind(kind);
            let first = hooks::drain();
            let t2 = run_kind(kind);
            let later = hooks::drain();
            // after registration (the other legitimate state of the context)
            bc_envelope::register_tags();
            hooks::drain();
            let t3 = run_kind(kind);
            let registered = hooks::drain();
            println!("{}", json!({"kind": kind, "first": events_json(&first), "later": events_json(&later), "registered": events_json(&registered),
                                   "text_first": t1, "text_later": t2, "text_registered": t3}));
        }
        "extract" => {
            let out = arg(&args, "--out").unwrap_or_else(|| "programs.json".into());
            let mut all = serde_json::Map::new();
            for k in KINDS {
                match spawn_self(&["extract-one".to_string(), k.to_string()], Duration::from_secs(30)) {
                    Ok(s) => {
                        let v: Value = serde_json::from_str(s.trim()).expect("child json");
                        all.insert(k.to_string(), v);
                    }
                    Err(e) => {
                        all.insert(k.to_string(), json!({"kind": k, "failed": e}));
                    }
                }
            }
            std::fs::write(&out, serde_json::to_string_pretty(&Value::Object(all)).unwrap()).expect("write");
        }
        "stress-child" => {
            let threads: usize = arg(&args, "--threads").and_then(|s| s.parse().ok()).unwrap_or(4);
            let calls: usize = arg(&args, "--calls").and_then(|s| s.parse().ok()).unwrap_or(2);
            let seed: u64 = arg(&args, "--seed").and_then(|s| s.parse().ok()).unwrap_or(1);
            // the texts each kind returns alone, before and after a registration (from the extraction run)
            let refs: Arc<Value> = Arc::new(arg(&args, "--ref").and_then(|f| std::fs::read_to_string(f).ok()).and_then(|t| serde_json::from_str(&t).ok()).unwrap_or(Value::Null));
            hooks::enable(true);
            let barrier = Arc::new(Barrier::new(threads));
            // one envelope shared by all threads (the crate is built with its `multithreaded` feature)
            let shared = sample();
            let shared_ref = (hex::encode(shared.digest().data()), hex::encode(shared.tagged_cbor().to_cbor_data()), shared.structural_digest().data().to_vec());
            let mut hs = vec![];
            for t in 0..threads {
                let b = barrier.clone();
                let shared = shared.clone();
                let shared_ref = shared_ref.clone();
                let refs = refs.clone();
                hs.push(std::thread::spawn(move || {
                    let mut rng = StdRng::seed_from_u64(seed.wrapping_mul(7919).wrapping_add(t as u64));
                    let plan: Vec<&str> = (0..calls).map(|_| KINDS[rng.gen_range(0..KINDS.len())]).collect();
                    b.wait();
                    let mut res = vec![];
                    {
                        // digest, encoding and structure of the shared envelope as seen from this thread, also
                        // after deriving from it
                        let d = hex::encode(shared.digest().data());
                        let c = hex::encode(shared.tagged_cbor().to_cbor_data());
                        let sd = shared.structural_digest().data().to_vec();
                        let derived = shared.add_assertion("t", t as u64).remove_assertion(Envelope::new_assertion("t", t as u64));
                        let same = d == shared_ref.0 && c == shared_ref.1 && sd == shared_ref.2 && derived.is_identical_to(&shared);
                        res.push(json!({"kind": "shared_envelope", "text": if same { "same" } else { "DIFFERENT" }}));
                    }
                    for k in plan {
                        // events for spec/LocksTrace.tla: a call that begins after a registration has completed
                        // must return the text of the registered state
                        hooks::emit("begin", k);
                        let r = std::panic::catch_unwind(|| run_kind(k));
                        if k == "register_tags" && r.is_ok() {
                            hooks::emit("reg_done", "FC");
                        }
                        if let Ok(text) = &r {
                            let (a1, a2) = (refs[k]["text_first"].as_str(), refs[k]["text_registered"].as_str());
                            let class = if a1.is_none() || a2.is_none() || a1 == a2 { "end_any" }
                                else if Some(text.as_str()) == a2 { "end_post" }
                                else if Some(text.as_str()) == a1 { "end_pre" }
                                else { "end_other" };
                            hooks::emit(class, k);
                        }
                        match r {
                            Ok(text) => res.push(json!({"kind": k, "text": text})),
                            Err(p) => {
                                let msg = p.downcast_ref::<String>().cloned().or_else(|| p.downcast_ref::<&str>().map(|s| s.to_string())).unwrap_or_default();
                                res.push(json!({"kind": k, "panic": msg}))
                            }
                        }
                    }
                    res
                }));
            }
            let mut results = vec![];
            for (t, h) in hs.into_iter().enumerate() {
                match h.join() {
                    Ok(r) => results.push(json!({"thread": t, "calls": r})),
                    Err(_) => results.push(json!({"thread": t, "panic": true})),
                }
            }
            // no lost update: every tag an application registered is still in the global context
            {
                use dcbor::prelude::*;
                let mine = CUSTOM.lock().unwrap().clone();
                let lost: Vec<u64> = bc_envelope::with_format_context!(|c: &bc_envelope::FormatContext| {
                    mine.iter().filter(|v| c.tags().tag_for_value(**v).is_none()).cloned().collect()
                });
                hooks::emit(if lost.is_empty() { "tags_kept" } else { "tags_lost" }, "FC");
                results.push(json!({"thread": 999, "calls": [{"kind": "custom_tags_kept", "text": if lost.is_empty() { "same".to_string() } else { format!("LOST {} of {}", lost.len(), mine.len()) }}]}));
            }
            let ev = hooks::drain();
            println!("{}", json!({"results": results, "events": events_json(&ev)}));
        }
        "stress" => {
            let threads: usize = arg(&args, "--threads").and_then(|s| s.parse().ok()).unwrap_or(4);
            let rounds: usize = arg(&args, "--rounds").and_then(|s| s.parse().ok()).unwrap_or(20);
            let calls: usize = arg(&args, "--calls").and_then(|s| s.parse().ok()).unwrap_or(2);
            let seed: u64 = arg(&args, "--seed").and_then(|s| s.parse().ok()).unwrap_or(1);
            let out = arg(&args, "--out").unwrap_or_else(|| "stress.json".into());
            let reff = arg(&args, "--ref").expect("--ref programs.json");
            let refs: Value = serde_json::from_str(&std::fs::read_to_string(&reff).expect("ref")).expect("ref json");
            let mut problems: Vec<Value> = vec![];
            let mut logs: Vec<Value> = vec![];
            let mut calls_done = 0u64;
            for r in 0..rounds {
                // vary the number of racing threads 2..=threads
                let n = 2 + (r % (threads - 1).max(1));
                let s = seed.wrapping_mul(1_000_003).wrapping_add(r as u64);
                let a = vec!["stress-child".to_string(), "--threads".into(), n.to_string(), "--calls".into(), calls.to_string(), "--seed".into(), s.to_string(), "--ref".into(), reff.clone()];
                match spawn_self(&a, Duration::from_secs(20)) {
                    Ok(text) => {
                        let v: Value = serde_json::from_str(text.trim()).expect("child json");
                        for th in v["results"].as_array().unwrap() {
                            if th["panic"] == json!(true) {
                                problems.push(json!({"round": r, "threads": n, "seed": s, "what": "thread panicked"}));
                                continue;
                            }
                            let mut registered_before = false;
                            for c in th["calls"].as_array().unwrap() {
                                calls_done += 1;
                                let k = c["kind"].as_str().unwrap();
                                if k == "custom_tags_kept" {
                                    if c["text"].as_str() != Some("same") {
                                        problems.push(json!({"round": r, "threads": n, "seed": s, "what": format!("tags registered by the application while other threads ran are gone from the global format context ({}): a later formatting call returns another text than it returns when run alone", c["text"].as_str().unwrap_or(""))}));
                                    }
                                    continue;
                                }
                                if k == "shared_envelope" {
                                    if c["text"].as_str() != Some("same") {
                                        problems.push(json!({"round": r, "threads": n, "seed": s, "what": "an envelope shared between threads gave a different digest / encoding / structure on one of them"}));
                                    }
                                    continue;
                                }
                                if let Some(p) = c.get("panic") {
                                    problems.push(json!({"round": r, "threads": n, "seed": s, "what": format!("{} panicked: {}", k, p)}));
                                    continue;
                                }
                                let t = c["text"].as_str().unwrap();
                                let a1 = refs[k]["text_first"].as_str().unwrap();
                                let a2 = refs[k]["text_registered"].as_str().unwrap();
                                let ok = if registered_before { t == a2 } else { t == a1 || t == a2 };
                                if !ok {
                                    problems.push(json!({"round": r, "threads": n, "seed": s, "what": format!("{} returned a text it never returns when run alone", k), "text": t}));
                                }
                                if k == "register_tags" {
                                    registered_before = true;
                                }
                            }
                        }
                        logs.push(json!({"round": r, "threads": n, "seed": s, "events": v["events"]}));
                    }
                    Err(e) => {
                        problems.push(json!({"round": r, "threads": n, "seed": s, "what": if e == "TIMEOUT" { "a call did not complete within 20 s (deadlock)".to_string() } else { e }}));
                        // no point in waiting out the watchdog in every remaining round
                        if problems.iter().filter(|p| p["what"].as_str().map(|w| w.contains("did not complete")).unwrap_or(false)).count() >= 2 {
                            break;
                        }
                    }
                }
            }
            std::fs::write(&out, serde_json::to_string(&json!({"rounds": rounds, "calls": calls_done, "problems": problems, "logs": logs})).unwrap()).expect("write");
            println!("{}", json!({"rounds": rounds, "calls": calls_done, "problems": problems.len()}));
        }
        _ => {
            eprintln!("usage: locks kinds|extract|stress ...");
            std::process::exit(2);
        }
    }
}
