//! A deliberately small CBOR writer. It knows nothing about envelopes; it is
//! used by the term evaluator to turn wire terms into bytes.

pub fn head(major: u8, n: u64, out: &mut Vec<u8>) {
    let m = major << 5;
    if n < 24 {
        out.push(m | n as u8);
    } else if n <= 0xff {
        out.push(m | 24);
        out.push(n as u8);
    } else if n <= 0xffff {
        out.push(m | 25);
        out.extend_from_slice(&(n as u16).to_be_bytes());
    } else if n <= 0xffff_ffff {
        out.push(m | 26);
        out.extend_from_slice(&(n as u32).to_be_bytes());
    } else {
        out.push(m | 27);
        out.extend_from_slice(&n.to_be_bytes());
    }
}

/// A head encoded in more bytes than necessary (non-deterministic CBOR).
pub fn head_nonminimal(major: u8, n: u64, out: &mut Vec<u8>) {
    let m = major << 5;
    if n < 24 {
        out.push(m | 24);
        out.push(n as u8);
    } else if n <= 0xff {
        out.push(m | 25);
        out.extend_from_slice(&(n as u16).to_be_bytes());
    } else if n <= 0xffff {
        out.push(m | 26);
        out.extend_from_slice(&(n as u32).to_be_bytes());
    } else {
        out.push(m | 27);
        out.extend_from_slice(&n.to_be_bytes());
    }
}

pub fn uint(n: u64) -> Vec<u8> {
    let mut v = vec![];
    head(0, n, &mut v);
    v
}
pub fn nint(n: i64) -> Vec<u8> {
    // n < 0
    let mut v = vec![];
    head(1, (-1 - n) as u64, &mut v);
    v
}
pub fn int(n: i64) -> Vec<u8> {
    if n >= 0 { uint(n as u64) } else { nint(n) }
}
pub fn bytes(b: &[u8]) -> Vec<u8> {
    let mut v = vec![];
    head(2, b.len() as u64, &mut v);
    v.extend_from_slice(b);
    v
}
pub fn text(s: &str) -> Vec<u8> {
    let mut v = vec![];
    head(3, s.len() as u64, &mut v);
    v.extend_from_slice(s.as_bytes());
    v
}
pub fn array(items: &[Vec<u8>]) -> Vec<u8> {
    let mut v = vec![];
    head(4, items.len() as u64, &mut v);
    for i in items {
        v.extend_from_slice(i);
    }
    v
}
/// Map with the entries in the order given (no sorting).
pub fn map_raw(pairs: &[(Vec<u8>, Vec<u8>)]) -> Vec<u8> {
    let mut v = vec![];
    head(5, pairs.len() as u64, &mut v);
    for (k, val) in pairs {
        v.extend_from_slice(k);
        v.extend_from_slice(val);
    }
    v
}
/// Map with entries sorted by encoded key (deterministic CBOR).
pub fn map_sorted(pairs: &[(Vec<u8>, Vec<u8>)]) -> Vec<u8> {
    let mut p = pairs.to_vec();
    p.sort_by(|a, b| a.0.cmp(&b.0));
    map_raw(&p)
}
pub fn tag(n: u64, item: &[u8]) -> Vec<u8> {
    let mut v = vec![];
    head(6, n, &mut v);
    v.extend_from_slice(item);
    v
}
pub fn simple(n: u8) -> Vec<u8> {
    vec![0xe0 | n]
}
pub fn f16_bits(bits: u16) -> Vec<u8> {
    let mut v = vec![0xf9];
    v.extend_from_slice(&bits.to_be_bytes());
    v
}
pub fn f32_bits(bits: u32) -> Vec<u8> {
    let mut v = vec![0xfa];
    v.extend_from_slice(&bits.to_be_bytes());
    v
}
pub fn f64_bits(bits: u64) -> Vec<u8> {
    let mut v = vec![0xfb];
    v.extend_from_slice(&bits.to_be_bytes());
    v
}
