//! Rule-agnostic term evaluator: turns the specification's symbolic digest and
//! wire terms into concrete bytes. It knows SHA-256, concatenation, ascending
//! sort and CBOR framing; *what* is hashed or framed, in which order and with
//! which tag is dictated entirely by the term that the TLA+ specification emits.

use crate::cborw as w;
use crate::pool::PV;
use serde_json::Value;
use sha2::{Digest as _, Sha256};
use std::collections::HashMap;

pub type D32 = [u8; 32];

pub fn sha256(data: &[u8]) -> D32 {
    let mut h = Sha256::new();
    h.update(data);
    h.finalize().into()
}

/// Assignment of pool values to atom names, shared by all behaviours that extend one
/// chain root; names are assigned on first use, injectively.
#[derive(Default)]
pub struct AtomTable {
    pub map: HashMap<String, PV>,
    pub order: Vec<PV>,
    pub next: usize,
}

/// Per-round context: how atoms are instantiated, which opaque values have been
/// bound to real bytes so far.
#[derive(Clone, Default)]
pub struct Ctx {
    /// atom name -> pool value
    pub atoms: std::rc::Rc<std::cell::RefCell<AtomTable>>,
    /// opaque id (JSON text of the id term) -> real bytes
    pub bind: HashMap<String, Vec<u8>>,
    /// memo for digest terms (JSON text -> digest)
    pub memo: HashMap<String, D32>,
    /// SSKR splits made so far in this behaviour (call id -> share envelopes by group and member)
    pub splits: HashMap<String, Vec<Vec<bc_envelope::Envelope>>>,
}

#[derive(Debug)]
pub struct EvalError(pub String);
type R<T> = Result<T, EvalError>;

fn err<T>(s: impl Into<String>) -> R<T> {
    Err(EvalError(s.into()))
}

pub fn key_of(v: &Value) -> String {
    v.to_string()
}

fn tag_of(v: &Value) -> &str {
    v.get(0).and_then(|x| x.as_str()).unwrap_or("")
}

impl Ctx {
    /// The pool value an atom name stands for in this chain.
    pub fn atom(&self, name: &str) -> Option<PV> {
        let mut t = self.atoms.borrow_mut();
        if let Some(p) = t.map.get(name) {
            return Some(p.clone());
        }
        if t.order.is_empty() {
            return None;
        }
        let i = t.next % t.order.len();
        let p = t.order[i].clone();
        t.next += 1;
        t.map.insert(name.to_string(), p.clone());
        Some(p)
    }
    pub fn atom_kinds(&self) -> String {
        let t = self.atoms.borrow();
        let mut v: Vec<String> = t.map.iter().map(|(k, p)| format!("{}:{}", k, p.kind())).collect();
        v.sort();
        v.join(",")
    }
    fn clone_for_wire(&self) -> Ctx {
        self.clone()
    }
    /// CBOR bytes of a leaf atom.
    pub fn atom_cbor(&self, atom: &Value) -> R<Vec<u8>> {
        match tag_of(atom) {
            "v" => {
                let name = atom[1].as_str().unwrap_or("");
                match self.atom(name) {
                    Some(pv) => Ok(pv.expected_cbor()),
                    None => err(format!("unbound atom {}", name)),
                }
            }
            "tkv" => Ok(w::tag(atom[1].as_u64().unwrap(), &w::uint(atom[2].as_u64().unwrap()))),
            "str" => Ok(w::text(atom[1].as_str().unwrap())),
            "uint" => Ok(w::uint(atom[1].as_u64().unwrap())),
            "int" => Ok(w::int(atom[1].as_i64().unwrap())),
            "bool" => Ok(w::simple(if atom[1].as_bool().unwrap() { 21 } else { 20 })),
            "cborof" => {
                // a leaf whose value is the CBOR item denoted by a wire term
                let mut c = self.clone_for_wire();
                c.wire(&atom[1])
            }
            // expression layer: deterministic tagged values
            "fn" | "param" => {
                let tagn = if tag_of(atom) == "fn" { 40006 } else { 40007 };
                let inner = if atom[1].as_str() == Some("k") { w::uint(atom[2].as_u64().unwrap_or(0)) } else { w::text(atom[2].as_str().unwrap_or("")) };
                Ok(w::tag(tagn, &inner))
            }
            "reqid" | "respid" | "evid" => {
                let tagn = match tag_of(atom) { "reqid" => 40004, "respid" => 40005, _ => 40026 };
                let arid = [atom[1].as_u64().unwrap_or(0) as u8; 32];
                Ok(w::tag(tagn, &w::tag(40012, &w::bytes(&arid))))
            }
            "respunknown" => Ok(w::tag(40005, &w::tag(40000, &w::uint(atom[1].as_u64().unwrap_or(0))))),
            "date" => Ok(w::tag(1, &match atom[1].as_str().unwrap_or("") {
                // (not the dates of the value pool: an atom of the pool must never coincide with a fixed atom)
                "int" => w::uint(1_600_000_000),
                "frac" => w::f16_bits(0x3e00),
                _ => w::nint(-172800),
            })),
            "cborhex" => hex::decode(atom[1].as_str().unwrap()).map_err(|e| EvalError(e.to_string())),
            // opaque values produced by the library (salt, signature, sealed message,
            // SSKR share...): bound to their real bytes at first sight
            _ => match self.bind.get(&key_of(atom)) {
                Some(b) => Ok(b.clone()),
                None => err(format!("unbound opaque atom {}", atom)),
            },
        }
    }

    /// 32 bytes of a digest term <<"H", first, rest>> | <<"X", i>>.
    pub fn digest(&mut self, term: &Value) -> R<D32> {
        let k = key_of(term);
        if let Some(d) = self.memo.get(&k) {
            return Ok(*d);
        }
        let d = match tag_of(term) {
            "H" => {
                let first = &term[1];
                let mut image = match tag_of(first) {
                    "cbor" => self.atom_cbor(&first[1])?,
                    _ => self.digest(first)?.to_vec(),
                };
                let mut rest: Vec<D32> = vec![];
                for r in term[2].as_array().ok_or(EvalError("H rest".into()))? {
                    rest.push(self.digest(r)?);
                }
                rest.sort();
                for r in rest {
                    image.extend_from_slice(&r);
                }
                sha256(&image)
            }
            "X" => sha256(format!("no-preimage:{}", term[1]).as_bytes()),
            _ => return err(format!("bad digest term {}", term)),
        };
        // terms mentioning unbound opaque atoms error out above and are not memoised
        self.memo.insert(k, d);
        Ok(d)
    }

    /// CBOR bytes of a wire term.
    pub fn wire(&mut self, t: &Value) -> R<Vec<u8>> {
        match tag_of(t) {
            "tag" => {
                let inner = self.wire(&t[2])?;
                Ok(w::tag(t[1].as_u64().unwrap(), &inner))
            }
            "payload" => self.atom_cbor(&t[1]),
            "uint" => Ok(w::uint(t[1].as_u64().unwrap())),
            "map1" => {
                let k = self.wire(&t[1])?;
                let v = self.wire(&t[2])?;
                Ok(w::map_raw(&[(k, v)]))
            }
            "mapn" => {
                let mut pairs = vec![];
                for p in t[1].as_array().unwrap() {
                    pairs.push((self.wire(&p[0])?, self.wire(&p[1])?));
                }
                Ok(w::map_sorted(&pairs))
            }
            "bytes" => {
                let mut d = self.digest(&t[1])?.to_vec();
                // 0: exact, 1: one byte appended, 2: one byte dropped
                match t[2].as_i64().unwrap_or(0) {
                    1 => d.push(0xAA),
                    2 => d.truncate(31),
                    _ => {}
                }
                Ok(w::bytes(&d))
            }
            "nodearr" => {
                let subj = self.wire(&t[1])?;
                let mut items: Vec<(D32, Vec<u8>)> = vec![];
                for it in t[2].as_array().unwrap() {
                    items.push((self.digest(&it[0])?, self.wire(&it[1])?));
                }
                items.sort_by(|a, b| a.0.cmp(&b.0));
                let mut seq: Vec<Vec<u8>> = items.into_iter().map(|x| x.1).collect();
                let perm = &t[3];
                match tag_of(perm) {
                    "id" => {}
                    "swap" => {
                        let i = perm[1].as_u64().unwrap() as usize - 1;
                        let j = perm[2].as_u64().unwrap() as usize - 1;
                        if i < seq.len() && j < seq.len() {
                            seq.swap(i, j);
                        }
                    }
                    "rev" => seq.reverse(),
                    "dup" => {
                        let i = perm[1].as_u64().unwrap() as usize - 1;
                        if i < seq.len() {
                            let x = seq[i].clone();
                            seq.insert(i, x);
                        }
                    }
                    "drop" => {
                        let i = perm[1].as_u64().unwrap() as usize - 1;
                        if i < seq.len() {
                            seq.remove(i);
                        }
                    }
                    other => return err(format!("bad perm {}", other)),
                }
                let mut all = vec![subj];
                all.extend(seq);
                Ok(w::array(&all))
            }
            "arr" => {
                let mut items = vec![];
                for it in t[1].as_array().unwrap() {
                    items.push(self.wire(it)?);
                }
                Ok(w::array(&items))
            }
            "encmsg" => {
                // <<"encmsg", D, key, nonce, Wplain, auth, extra>>: random nonce, so the
                // bytes are those bound when the element was first seen
                let id = key_of(&t[3]);
                let mut b = match self.bind.get(&format!("enc:{}", id)) {
                    Some(b) => b.clone(),
                    None => return err(format!("opaque: unbound ciphertext {}", id)),
                };
                // the bound item is the 4-element array [ciphertext, nonce, tag, aad]
                if tag_of(&t[1]) == "nodigest" || tag_of(&t[1]) == "baddigest" {
                    if b[0] != 0x84 {
                        return err("encmsg: unexpected container");
                    }
                    let n = b.len();
                    b.truncate(n - 39); // aad = h'..37 bytes..' holding the CBOR of #6.40001(h'32 bytes'): 58 25 + 37
                    if tag_of(&t[1]) == "nodigest" {
                        b[0] = 0x83;
                    } else {
                        // additional data present, but not a tagged digest
                        b.extend_from_slice(&w::bytes(&w::text("not a digest")));
                    }
                }
                if t[6].as_u64().unwrap_or(0) > 0 {
                    b[0] += 1;
                    b.extend_from_slice(&w::bytes(&[1, 2, 3]));
                }
                Ok(b)
            }
            "compmsg" => {
                // <<"compmsg", D, Wplain, state, extra>>: DEFLATE is a trusted primitive,
                // the container is rebuilt from the evaluated plaintext
                if t[3].as_str() != Some("ok") {
                    return err("opaque: corrupted compressed payload");
                }
                let plain = self.wire(&t[2])?;
                let bad = tag_of(&t[1]) == "baddigest";
                let dg = if tag_of(&t[1]) == "nodigest" || bad { None } else { Some(bc_components::Digest::from_data(self.digest(&t[1])?)) };
                let c = bc_components::Compressed::from_uncompressed_data(plain, dg);
                use dcbor::prelude::*;
                let mut b = c.untagged_cbor().to_cbor_data();
                if bad {
                    b[0] += 1;
                    b.extend_from_slice(&w::text("not a digest"));
                }
                if t[4].as_u64().unwrap_or(0) > 0 {
                    b[0] += 1;
                    b.extend_from_slice(&w::bytes(&[1, 2, 3]));
                }
                Ok(b)
            }
            "other" => Ok(match t[1].as_str().unwrap_or("") {
                "float" => w::f16_bits(0x3e00),
                "text" => w::text("x"),
                "negint" => w::nint(-1),
                "bool" => w::simple(21),
                _ => return err("other"),
            }),
            "quirk" => {
                // a well-formed but non-deterministic encoding of the item
                let b = self.wire(&t[2])?;
                let q = t[1].as_str().unwrap_or("");
                let major = b[0] >> 5;
                let ai = b[0] & 31;
                let (n, hl): (u64, usize) = match ai {
                    0..=23 => (ai as u64, 1),
                    24 => (b[1] as u64, 2),
                    25 => (u16::from_be_bytes([b[1], b[2]]) as u64, 3),
                    26 => (u32::from_be_bytes([b[1], b[2], b[3], b[4]]) as u64, 5),
                    27 => (u64::from_be_bytes([b[1], b[2], b[3], b[4], b[5], b[6], b[7], b[8]]), 9),
                    // already an indefinite-length / non-canonical item (a quirk of a quirk): it stays non-deterministic
                    _ => return Ok(b),
                };
                let mut out = vec![];
                if q == "indefinite" && (major == 4 || major == 5) {
                    out.push((major << 5) | 31);
                    out.extend_from_slice(&b[hl..]);
                    out.push(0xff);
                } else if q == "indefinite" && (major == 2 || major == 3) {
                    out.push((major << 5) | 31);
                    out.extend_from_slice(&b); // one definite chunk
                    out.push(0xff);
                } else if major == 7 {
                    // simple / float: encode a half float as a single (longer) float
                    return Ok(w::f32_bits(0x3fc00000));
                } else {
                    w::head_nonminimal(major, n, &mut out);
                    out.extend_from_slice(&b[hl..]);
                }
                Ok(out)
            }
            "rawhex" => hex::decode(t[1].as_str().unwrap()).map_err(|e| EvalError(e.to_string())),
            other => err(format!("bad wire term tag {:?} in {}", other, t)),
        }
    }
}
