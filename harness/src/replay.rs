//! Direction A: replay one specification behaviour (a call sequence with the
//! expected observation of its last call) against the real library.

use crate::eval::Ctx;
use crate::ops::{outcome_json, Exec, Outcome, Regs};
use crate::pool::{pool, PV};
use crate::project::{check, fingerprint, Keys};
use bc_components::SymmetricKey;
use bc_envelope::prelude::*;
use rand::rngs::StdRng;
use rand::seq::SliceRandom;
use rand::{Rng, SeedableRng};
use serde_json::{json, Value};
use std::collections::{BTreeSet, HashMap};

#[derive(Debug, Clone)]
pub struct Failure {
    /// class of disagreement: outcome | result | wire | source-changed | pre | panic | tool
    pub kind: String,
    /// op of the step concerned
    pub op: String,
    /// short stable key used to match known findings
    pub key: String,
    pub detail: String,
    pub round: u64,
}

#[derive(Default, Clone)]
pub struct Stats {
    pub behaviours: u64,
    pub evaluations: u64,
    pub per_op: HashMap<String, u64>,
    pub per_out: HashMap<String, u64>,
    pub nontrivial: std::collections::HashSet<u64>,
    pub err_kind_notes: HashMap<String, u64>,
    pub pool_kinds: HashMap<String, u64>,
}

fn collect_atoms(v: &Value, out: &mut BTreeSet<String>) {
    match v {
        Value::Array(a) => {
            if a.len() == 2 && a[0].as_str() == Some("v") {
                if let Some(n) = a[1].as_str() {
                    out.insert(n.to_string());
                    return;
                }
            }
            for x in a {
                collect_atoms(x, out);
            }
        }
        Value::Object(m) => {
            for (_, x) in m {
                collect_atoms(x, out);
            }
        }
        _ => {}
    }
}

fn collect_keys(v: &Value, out: &mut BTreeSet<String>) {
    // symmetric key ids are plain strings starting with "k"; recipients/signers are handled elsewhere
    match v {
        Value::String(s) => {
            if s.len() <= 3 && s.starts_with('k') && s[1..].chars().all(|c| c.is_ascii_digit()) {
                out.insert(s.clone());
            }
        }
        Value::Array(a) => a.iter().for_each(|x| collect_keys(x, out)),
        Value::Object(m) => m.values().for_each(|x| collect_keys(x, out)),
        _ => {}
    }
}

fn fnv(s: &str) -> u64 {
    let mut h: u64 = 0xcbf29ce484222325;
    for b in s.as_bytes() {
        h ^= *b as u64;
        h = h.wrapping_mul(0x100000001b3);
    }
    h
}

pub fn round_rng(seed: u64, beh_text: &str, round: u64) -> StdRng {
    StdRng::seed_from_u64(seed ^ fnv(beh_text).rotate_left(17) ^ round.wrapping_mul(0x9E3779B97F4A7C15))
}

pub fn make_ctx(beh: &Value, rng: &mut StdRng, restrict: Option<&[&str]>) -> (Ctx, Keys) {
    let mut names = BTreeSet::new();
    collect_atoms(beh, &mut names);
    let mut p: Vec<PV> = pool();
    if let Some(kinds) = restrict {
        p.retain(|x| kinds.contains(&x.kind()));
    }
    p.shuffle(rng);
    let mut ctx = Ctx::default();
    for (i, n) in names.iter().enumerate() {
        ctx.atoms.insert(n.clone(), p[i % p.len()].clone());
    }
    let mut knames = BTreeSet::new();
    collect_keys(beh, &mut knames);
    let mut sym = HashMap::new();
    for k in knames {
        sym.insert(k, SymmetricKey::new());
    }
    (ctx, Keys { sym })
}

fn elements_of(v: &Value) -> usize {
    // rough size of an annotated abstract envelope
    match v.get(0).and_then(|x| x.as_str()) {
        Some("node") => 1 + elements_of(&v[1]) + v[2].as_array().map(|a| a.iter().map(elements_of).sum()).unwrap_or(0),
        Some("assn") => 1 + elements_of(&v[1]) + elements_of(&v[2]),
        Some("wrap") => 1 + elements_of(&v[1]),
        Some("none") | None => 0,
        _ => 1,
    }
}

/// Replay one behaviour for one round.
pub fn replay_round(beh: &Value, beh_text: &str, seed: u64, round: u64, stats: &mut Stats) -> Result<(), Failure> {
    let mut rng = round_rng(seed, beh_text, round);
    let (mut ctx, keys) = make_ctx(beh, &mut rng, None);
    for pv in ctx.atoms.values() {
        *stats.pool_kinds.entry(pv.kind().to_string()).or_insert(0) += 1;
    }
    let steps = beh["steps"].as_array().ok_or_else(|| tool("steps"))?;
    let pre = beh["pre"].as_array().ok_or_else(|| tool("pre"))?;
    let nreg = pre.len();
    let mut regs: Regs = vec![None; nreg];
    let n = steps.len();
    let atom_desc: String = {
        let mut v: Vec<String> = ctx.atoms.iter().map(|(k, p)| format!("{}:{}", k, p.kind())).collect();
        v.sort();
        v.join(",")
    };
    let fail = |kind: &str, op: &str, key: String, detail: String| Failure {
        kind: kind.into(),
        op: op.into(),
        key,
        detail: format!("{} [atoms {}]", detail, atom_desc),
        round,
    };

    // prefix: execute without checking (each prefix is checked as its own behaviour)
    for step in &steps[..n - 1] {
        let op = step[0].as_str().unwrap_or("?").to_string();
        let dst = step[1].as_u64().unwrap_or(0) as usize;
        let variant: u64 = rng.gen();
        let mut ex = Exec { ctx: &mut ctx, keys: &keys, variant };
        match ex.exec(step, &regs) {
            Outcome::Env(e) => {
                if dst >= 1 {
                    regs[dst - 1] = Some(e);
                }
            }
            Outcome::Err(_) | Outcome::Obs(_) => {}
            Outcome::Panic(m) => {
                return Err(fail("pre", &op, format!("pre:panic:{}", op), format!("prefix step panicked: {}", m)))
            }
            Outcome::Unsupported(m) => return Err(fail("tool", &op, format!("tool:{}", op), m)),
        }
    }
    // pre-state must be what the specification says it is (also binds opaque values)
    for (i, p) in pre.iter().enumerate() {
        let is_none = p.get(0).and_then(|x| x.as_str()) == Some("none");
        match (&regs[i], is_none) {
            (None, true) => {}
            (Some(e), false) => {
                if let Err(d) = check(p, e, &mut ctx, &keys, &format!("pre[{}]", i + 1)) {
                    return Err(fail("pre", "-", "pre:mismatch".into(), d));
                }
            }
            _ => return Err(fail("pre", "-", "pre:presence".into(), format!("register {} presence differs", i + 1))),
        }
    }
    let before: Vec<Option<(Vec<u8>, Vec<u8>)>> = regs.iter().map(|r| r.as_ref().map(fingerprint)).collect();

    // the step under test
    let step = &steps[n - 1];
    let op = step[0].as_str().unwrap_or("?").to_string();
    let dst = step[1].as_u64().unwrap_or(0) as usize;
    let variant: u64 = rng.gen();
    let outcome = {
        let mut ex = Exec { ctx: &mut ctx, keys: &keys, variant };
        ex.exec(step, &regs)
    };
    stats.evaluations += 1;
    *stats.per_op.entry(op.clone()).or_insert(0) += 1;
    let want_out = &beh["out"];
    let want_class = want_out[0].as_str().unwrap_or("");
    *stats.per_out.entry(format!("{}:{}", op, want_class)).or_insert(0) += 1;
    let got = outcome_json(&outcome);
    let got_class = got[0].as_str().unwrap_or("").to_string();

    match &outcome {
        Outcome::Panic(m) => {
            return Err(fail("panic", &op, format!("panic:{}:{}", op, panic_site(m)), format!("{} panicked: {}", op, m)));
        }
        Outcome::Unsupported(m) => return Err(fail("tool", &op, format!("tool:{}", op), m.clone())),
        _ => {}
    }
    if got_class != want_class {
        return Err(fail(
            "outcome",
            &op,
            format!(
                "outcome:{}:{}{}->{}",
                op,
                want_class,
                if want_class == "err" { format!("({})", want_out[1].as_str().unwrap_or("")) } else { String::new() },
                got_class
            ),
            format!("{}: specification says {} but the library returned {}", op, want_out, got),
        ));
    }
    match &outcome {
        Outcome::Err(k) => {
            let wk = want_out[1].as_str().unwrap_or("");
            let agree = k == wk || (k.starts_with("other:") && (wk == "crypto" || wk == "corrupt" || wk == "cbor"));
            if !agree {
                *stats.err_kind_notes.entry(format!("{}:{}!={}", op, wk, k.split(':').next().unwrap_or(""))).or_insert(0) += 1;
            }
        }
        Outcome::Env(e) => {
            let exp = &beh["res"];
            if let Err(d) = check(exp, e, &mut ctx, &keys, "res") {
                return Err(fail("result", &op, format!("result:{}", op), format!("{}: {}", op, d)));
            }
            // serialized bytes = the specification's wire term
            let w = &beh["wire"];
            if w.get(0).and_then(|x| x.as_str()) != Some("none") {
                let want = match ctx.wire(w) {
                    Ok(b) => Some(b),
                    Err(er) if er.0.starts_with("opaque:") => None,
                    Err(er) => return Err(fail("tool", &op, format!("tool:wire:{}", op), er.0)),
                };
                let gotb = e.tagged_cbor().to_cbor_data();
                if want.is_some() && want.as_ref() != Some(&gotb) {
                    let want = want.unwrap();
                    return Err(fail(
                        "wire",
                        &op,
                        format!("wire:{}", op),
                        format!("{}: serialization {} differs from the specified {}", op, hex::encode(&gotb), hex::encode(&want)),
                    ));
                }
            }
            if elements_of(exp) >= 2 {
                stats.nontrivial.insert(fnv(&format!("{}|{}", op, exp)));
            }
            if dst >= 1 {
                regs[dst - 1] = Some(e.clone());
            }
        }
        Outcome::Obs(v) => {
            let natural = natural_type_ok(&want_out[1], step, &ctx);
            if let Err(d) = crate::obs::compare_obs(&op, &want_out[1], v, &mut ctx, natural) {
                // a "#sub-key#" prefix narrows the failure key (used to match known findings narrowly)
                let (sub, d) = match d.strip_prefix('#').and_then(|r| r.split_once("# ")) {
                    Some((k, rest)) => (format!(":{}", k), rest.to_string()),
                    None => (String::new(), d),
                };
                let ty = if op == "obs_extract" { format!(":{}", step[3].as_str().unwrap_or("")) } else { String::new() };
                return Err(fail("observation", &op, format!("obs:{}{}{}", op, ty, sub), format!("{}: {}", op, d)));
            }
            stats.nontrivial.insert(fnv(&format!("{}|{}", op, want_out[1])));
        }
        _ => {}
    }
    if want_class == "err" {
        stats.nontrivial.insert(fnv(&format!("{}|err|{}", op, beh["pre"])));
    }
    // every register other than the destination is untouched, bit for bit
    for (i, r) in regs.iter().enumerate() {
        if i + 1 == dst && matches!(outcome, Outcome::Env(_)) {
            continue;
        }
        let now = r.as_ref().map(fingerprint);
        if now != before[i] {
            return Err(fail("source-changed", &op, format!("source-changed:{}", op), format!("{} altered register {}", op, i + 1)));
        }
    }
    Ok(())
}

/// For obs_extract on a leaf: is the requested type the value's own type?
fn natural_type_ok(want: &Value, step: &Value, ctx: &Ctx) -> Option<bool> {
    if want.get(0).and_then(|x| x.as_str()) != Some("leaf") {
        return None;
    }
    let atom = &want[1];
    if atom.get(0).and_then(|x| x.as_str()) != Some("v") {
        return None;
    }
    let pv = ctx.atoms.get(atom[1].as_str()?)?;
    let ty = step.get(3)?.as_str()?;
    let nat = match pv {
        PV::Str(_) | PV::StrSlice(_) => "String",
        PV::U8(_) | PV::U16(_) | PV::U32(_) | PV::U64(_) | PV::Usize(_) => "u64",
        PV::I8(_) | PV::I16(_) | PV::I32(_) | PV::I64(_) => "i64",
        PV::Bool(_) => "bool",
        PV::F64(..) | PV::F32(..) => "f64",
        PV::Bytes(_) => "ByteString",
        _ => return Some(false),
    };
    Some(nat == ty)
}

fn tool(s: &str) -> Failure {
    Failure { kind: "tool".into(), op: "-".into(), key: format!("tool:{}", s), detail: s.into(), round: 0 }
}

/// Extract "file.rs:line" from a panic message produced by our hook.
pub fn panic_site(m: &str) -> String {
    if let Some(i) = m.find(" @ ") {
        let loc = &m[i + 3..];
        let loc = loc.rsplit('/').next().unwrap_or(loc);
        // drop the column
        let parts: Vec<&str> = loc.split(':').collect();
        if parts.len() >= 2 {
            return format!("{}:{}", parts[0], parts[1]);
        }
        return loc.to_string();
    }
    "?".into()
}

/// Observation equality: arrays tagged as sets by the specification are
/// compared as multisets; everything else structurally.
pub fn obs_equal(want: &Value, got: &Value) -> bool {
    canon(want) == canon(got)
}
fn canon(v: &Value) -> Value {
    match v {
        Value::Array(a) => {
            if a.len() == 2 && a[0].as_str() == Some("set") {
                if let Some(items) = a[1].as_array() {
                    let mut c: Vec<Value> = items.iter().map(canon).collect();
                    c.sort_by_key(|x| x.to_string());
                    return json!(["set", c]);
                }
            }
            Value::Array(a.iter().map(canon).collect())
        }
        _ => v.clone(),
    }
}

/// Parse one TLC output line; behaviours are printed as <<"BEH", "json">>.
pub fn parse_line(line: &str) -> Option<(Value, String)> {
    let l = line.trim();
    let l = l.strip_prefix("<<\"BEH\", ")?;
    let l = l.strip_suffix(">>")?;
    let inner: String = serde_json::from_str(l).ok()?;
    let v: Value = serde_json::from_str(&inner).ok()?;
    Some((v, inner))
}
