//! Direction A: replay specification behaviours (a call sequence with the expected
//! observation of its last call) against the real library.
//!
//! Every behaviour TLC prints is the witness path of a state plus one more call, and
//! the path itself was printed (and replayed) earlier. A worker therefore keeps the
//! real state reached after every behaviour it has replayed (registers, bindings of
//! opaque values, key material) and starts each behaviour from the state of its prefix.

use crate::eval::{AtomTable, Ctx};
use crate::ops::{outcome_json, Exec, Outcome, Regs};
use crate::pool::{pool, PV};
use crate::project::{check, fingerprint, Keys};
use rand::rngs::StdRng;
use rand::seq::SliceRandom;
use rand::{Rng, SeedableRng};
use serde_json::Value;
use std::collections::HashMap;
use std::rc::Rc;

#[derive(Debug, Clone)]
pub struct Failure {
    /// class of disagreement: outcome | result | wire | source-changed | pre | panic | tool | observation
    pub kind: String,
    pub op: String,
    /// short stable key used to match known findings
    pub key: String,
    pub detail: String,
    pub round: u64,
}

#[derive(Default, Clone)]
pub struct Stats {
    pub behaviours: u64,
    pub evaluations: u64,
    pub per_op: HashMap<String, u64>,
    pub per_out: HashMap<String, u64>,
    pub nontrivial: std::collections::HashSet<u64>,
    pub err_kind_notes: HashMap<String, u64>,
    pub pool_kinds: HashMap<String, u64>,
    pub cache_hits: u64,
    pub cache_misses: u64,
    pub skipped_after_failed_prefix: u64,
}

pub fn fnv(s: &str) -> u64 {
    let mut h: u64 = 0xcbf29ce484222325;
    for b in s.as_bytes() {
        h ^= *b as u64;
        h = h.wrapping_mul(0x100000001b3);
    }
    h
}

/// The real state reached after a behaviour.
#[derive(Clone)]
pub struct ChainState {
    pub regs: Regs,
    pub ctx: Ctx,
    pub keys: Rc<Keys>,
}

pub struct Replayer {
    pub seed: u64,
    pub rounds: u64,
    pub stats: Stats,
    /// (round, text of the steps) -> state; None = that behaviour failed
    cache: HashMap<(u64, String), Option<ChainState>>,
    pub cache_cap: usize,
}

fn elements_of(v: &Value) -> usize {
    match v.get(0).and_then(|x| x.as_str()) {
        Some("node") => 1 + elements_of(&v[1]) + v[2].as_array().map(|a| a.iter().map(elements_of).sum()).unwrap_or(0),
        Some("assn") => 1 + elements_of(&v[1]) + elements_of(&v[2]),
        Some("wrap") => 1 + elements_of(&v[1]),
        Some("none") | None => 0,
        _ => 1,
    }
}

impl Replayer {
    pub fn new(seed: u64, rounds: u64) -> Self {
        Replayer { seed, rounds, stats: Stats::default(), cache: HashMap::new(), cache_cap: 1_500_000 }
    }

    fn fresh_state(&self, nreg: usize, root_text: &str, round: u64) -> ChainState {
        let salt = self.seed ^ fnv(root_text).rotate_left(17) ^ round.wrapping_mul(0x9E3779B97F4A7C15);
        let mut rng = StdRng::seed_from_u64(salt);
        let mut order: Vec<PV> = pool();
        order.shuffle(&mut rng);
        let table = AtomTable { map: HashMap::new(), order, next: 0 };
        let ctx = Ctx { atoms: Rc::new(std::cell::RefCell::new(table)), ..Default::default() };
        ChainState { regs: vec![None; nreg], ctx, keys: Rc::new(Keys::new(salt)) }
    }

    /// Replay one behaviour in every round. Returns the first failure.
    pub fn replay(&mut self, beh: &Value) -> Result<(), Failure> {
        self.stats.behaviours += 1;
        let steps = beh["steps"].as_array().ok_or_else(|| tool("steps"))?;
        let n = steps.len();
        let prefix_text = Value::Array(steps[..n - 1].to_vec()).to_string();
        let full_text = Value::Array(steps.to_vec()).to_string();
        let root_text = steps[0].to_string();
        let mut first_err = None;
        for round in 0..self.rounds {
            let r = self.replay_round(beh, steps, &prefix_text, &full_text, &root_text, round);
            if let Err(f) = r {
                if self.cache.len() < self.cache_cap {
                    self.cache.insert((round, full_text.clone()), None);
                }
                if first_err.is_none() {
                    first_err = Some(f);
                }
            }
        }
        match first_err {
            Some(f) => Err(f),
            None => Ok(()),
        }
    }

    fn start_state(&mut self, beh: &Value, steps: &[Value], prefix_text: &str, root_text: &str, round: u64) -> Result<ChainState, Failure> {
        let n = steps.len();
        let nreg = beh["pre"].as_array().map(|a| a.len()).unwrap_or(1);
        if n == 1 {
            return Ok(self.fresh_state(nreg, root_text, round));
        }
        if let Some(s) = self.cache.get(&(round, prefix_text.to_string())) {
            self.stats.cache_hits += 1;
            return match s {
                Some(st) => Ok(st.clone()),
                None => {
                    self.stats.skipped_after_failed_prefix += 1;
                    Err(Failure { kind: "skip".into(), op: "-".into(), key: "skip:failed-prefix".into(), detail: "prefix failed".into(), round })
                }
            };
        }
        // not replayed by this worker (cache full, or a hand-made replay file): execute the prefix
        self.stats.cache_misses += 1;
        let mut st = self.fresh_state(nreg, root_text, round);
        let mut rng = StdRng::seed_from_u64(self.seed ^ fnv(prefix_text) ^ round);
        for step in &steps[..n - 1] {
            let op = step[0].as_str().unwrap_or("?").to_string();
            let dst = step[1].as_u64().unwrap_or(0) as usize;
            let variant: u64 = rng.gen();
            let keys = st.keys.clone();
            let out = {
                let mut ex = Exec { ctx: &mut st.ctx, keys: &keys, variant };
                ex.exec(step, &st.regs)
            };
            match out {
                Outcome::Env(e) => {
                    if dst >= 1 {
                        st.regs[dst - 1] = Some(e);
                    }
                }
                Outcome::Err(_) | Outcome::Obs(_) => {}
                Outcome::Panic(m) => {
                    return Err(Failure { kind: "pre".into(), op: op.clone(), key: format!("pre:panic:{}", op), detail: format!("prefix step panicked: {}", m), round })
                }
                Outcome::Unsupported(m) => return Err(Failure { kind: "tool".into(), op: op.clone(), key: format!("tool:prefix:{}", op), detail: m, round }),
            }
        }
        // the rebuilt pre-state must be what the specification says it is (also binds opaque values)
        let pre = beh["pre"].as_array().ok_or_else(|| tool("pre"))?;
        let keys = st.keys.clone();
        for (i, p) in pre.iter().enumerate() {
            let is_none = p.get(0).and_then(|x| x.as_str()) == Some("none");
            match (&st.regs[i], is_none) {
                (None, true) => {}
                (Some(e), false) => {
                    let e = e.clone();
                    if let Err(d) = check(p, &e, &mut st.ctx, &keys, &format!("pre[{}]", i + 1)) {
                        return Err(Failure { kind: "pre".into(), op: "-".into(), key: "pre:mismatch".into(), detail: d, round });
                    }
                }
                _ => return Err(Failure { kind: "pre".into(), op: "-".into(), key: "pre:presence".into(), detail: format!("register {} presence differs", i + 1), round }),
            }
        }
        Ok(st)
    }

    fn replay_round(&mut self, beh: &Value, steps: &[Value], prefix_text: &str, full_text: &str, root_text: &str, round: u64) -> Result<(), Failure> {
        let mut st = self.start_state(beh, steps, prefix_text, root_text, round)?;
        st.ctx.memo.clear();
        // The specification names fresh values by the smallest call id not held in any register, so an id
        // can be used again once the old value is gone: forget bindings of values that are no longer in the
        // pre-state.
        {
            let pre_text = beh["pre"].to_string();
            st.ctx.bind.retain(|k, _| {
                if let Some(id) = k.strip_prefix("enc:") {
                    pre_text.contains(&format!("\"enc\",")) && pre_text.contains(id)
                } else if let Some(name) = k.strip_prefix("ck:") {
                    pre_text.contains(&format!("\"{}\"", name))
                } else if let Some(c) = k.strip_prefix("split:") {
                    pre_text.contains(&format!("[\"share\",{},", c))
                } else {
                    pre_text.contains(k.as_str())
                }
            });
        }
        let keys = st.keys.clone();
        let n = steps.len();
        let mut rng = StdRng::seed_from_u64(self.seed ^ fnv(full_text).rotate_left(23) ^ round.wrapping_mul(0xD1B54A32D192ED03));
        let before: Vec<Option<(Vec<u8>, Vec<u8>)>> = st.regs.iter().map(|r| r.as_ref().map(fingerprint)).collect();

        let step = &steps[n - 1];
        let op = step[0].as_str().unwrap_or("?").to_string();
        let dst = step[1].as_u64().unwrap_or(0) as usize;
        let variant: u64 = rng.gen();
        let outcome = {
            let mut ex = Exec { ctx: &mut st.ctx, keys: &keys, variant };
            ex.exec(step, &st.regs)
        };
        let stats = &mut self.stats;
        stats.evaluations += 1;
        *stats.per_op.entry(op.clone()).or_insert(0) += 1;
        let want_out = &beh["out"];
        let want_class = want_out[0].as_str().unwrap_or("");
        *stats.per_out.entry(format!("{}:{}", op, want_class)).or_insert(0) += 1;
        let got = outcome_json(&outcome);
        let got_class = got[0].as_str().unwrap_or("").to_string();
        let describe = |ctx: &Ctx| format!("[atoms {}] [keys {}]", ctx.atom_kinds(), keys.describe());
        let fail = |ctx: &Ctx, kind: &str, key: String, detail: String| Failure {
            kind: kind.into(),
            op: op.clone(),
            key,
            detail: format!("{} {}", detail, describe(ctx)),
            round,
        };

        match &outcome {
            Outcome::Panic(m) => {
                return Err(fail(&st.ctx, "panic", format!("panic:{}:{}", op, panic_site(m)), format!("{} panicked: {}", op, m)));
            }
            // two entry points of the library that answer one question differently: a finding, not a tool error
            Outcome::Unsupported(m) if m.starts_with("#variant:") => {
                let name = m[9..].split('#').next().unwrap_or("").to_string();
                return Err(fail(&st.ctx, "variant", format!("variant:{}:{}", op, name), m.clone()));
            }
            Outcome::Unsupported(m) => return Err(fail(&st.ctx, "tool", format!("tool:{}", op), m.clone())),
            _ => {}
        }
        if got_class != want_class {
            return Err(fail(
                &st.ctx,
                "outcome",
                format!(
                    "outcome:{}:{}{}->{}",
                    op,
                    want_class,
                    if want_class == "err" { format!("({})", want_out[1].as_str().unwrap_or("")) } else { String::new() },
                    got_class
                ),
                format!("{}: specification says {} but the library returned {}", op, want_out, got),
            ));
        }
        match &outcome {
            Outcome::Err(k) => {
                let wk = want_out[1].as_str().unwrap_or("");
                let agree = k == wk || k.starts_with("other:");
                if !agree {
                    *stats.err_kind_notes.entry(format!("{}:{}!={}", op, wk, k.split(':').next().unwrap_or(""))).or_insert(0) += 1;
                }
            }
            Outcome::Env(e) => {
                let exp = &beh["res"];
                if let Err(d) = check(exp, e, &mut st.ctx, &keys, "res") {
                    return Err(fail(&st.ctx, "result", format!("result:{}", op), format!("{}: {}", op, d)));
                }
                // serialized bytes = the specification's wire term
                let w = &beh["wire"];
                if w.get(0).and_then(|x| x.as_str()) != Some("none") {
                    let want = match st.ctx.wire(w) {
                        Ok(b) => Some(b),
                        Err(er) if er.0.starts_with("opaque:") => None,
                        Err(er) => return Err(fail(&st.ctx, "tool", format!("tool:wire:{}", op), er.0)),
                    };
                    let gotb = {
                        use bc_envelope::prelude::*;
                        e.tagged_cbor().to_cbor_data()
                    };
                    if let Some(want) = want {
                        if want != gotb {
                            return Err(fail(
                                &st.ctx,
                                "wire",
                                format!("wire:{}", op),
                                format!("{}: serialization {} differs from the specified {}", op, hex::encode(&gotb), hex::encode(&want)),
                            ));
                        }
                    }
                }
                if elements_of(exp) >= 2 {
                    stats.nontrivial.insert(fnv(&format!("{}|{}", op, exp)));
                }
                if dst >= 1 {
                    st.regs[dst - 1] = Some(e.clone());
                }
            }
            Outcome::Obs(v) => {
                let natural = natural_type_ok(&want_out[1], step, &st.ctx);
                if let Err(d) = crate::obs::compare_obs(&op, &want_out[1], v, &mut st.ctx, natural) {
                    // a "#sub-key#" prefix narrows the failure key (used to match known findings narrowly)
                    let (sub, d) = match d.strip_prefix('#').and_then(|r| r.split_once("# ")) {
                        Some((k, rest)) => (format!(":{}", k), rest.to_string()),
                        None => (String::new(), d),
                    };
                    let ty = if op == "obs_extract" { format!(":{}", step[3].as_str().unwrap_or("")) } else { String::new() };
                    return Err(fail(&st.ctx, "observation", format!("obs:{}{}{}", op, ty, sub), format!("{}: {}", op, d)));
                }
                stats.nontrivial.insert(fnv(&format!("{}|{}", op, want_out[1])));
            }
            _ => {}
        }
        if want_class == "err" {
            stats.nontrivial.insert(fnv(&format!("{}|err|{}", op, beh["pre"])));
        }
        // every register other than the destination is untouched, bit for bit
        for (i, r) in st.regs.iter().enumerate() {
            if i + 1 == dst && matches!(outcome, Outcome::Env(_)) {
                continue;
            }
            let now = r.as_ref().map(fingerprint);
            if now != before[i] {
                return Err(fail(&st.ctx, "source-changed", format!("source-changed:{}", op), format!("{} altered register {}", op, i + 1)));
            }
        }
        if round == 0 {
            for pv in st.ctx.atoms.borrow().map.values() {
                *stats.pool_kinds.entry(pv.kind().to_string()).or_insert(0) += 1;
            }
        }
        st.ctx.memo.clear();
        if self.cache.len() < self.cache_cap {
            self.cache.insert((round, full_text.to_string()), Some(st));
        }
        Ok(())
    }
}

/// For obs_extract on a leaf: is the requested type the value's own type?
fn natural_type_ok(want: &Value, step: &Value, ctx: &Ctx) -> Option<bool> {
    if want.get(0).and_then(|x| x.as_str()) != Some("leaf") {
        return None;
    }
    let atom = &want[1];
    if atom.get(0).and_then(|x| x.as_str()) != Some("v") {
        return None;
    }
    let pv = ctx.atom(atom[1].as_str()?)?;
    let ty = step.get(3)?.as_str()?;
    let nat = match pv {
        PV::Str(_) | PV::StrSlice(_) => "String",
        PV::U8(_) | PV::U16(_) | PV::U32(_) | PV::U64(_) | PV::Usize(_) => "u64",
        PV::I8(_) | PV::I16(_) | PV::I32(_) | PV::I64(_) => "i64",
        PV::Bool(_) => "bool",
        PV::F64(..) | PV::F32(..) => "f64",
        PV::Bytes(_) => "ByteString",
        _ => return Some(false),
    };
    Some(nat == ty)
}

fn tool(s: &str) -> Failure {
    Failure { kind: "tool".into(), op: "-".into(), key: format!("tool:{}", s), detail: s.into(), round: 0 }
}

/// Extract "file.rs:line" from a panic message produced by our hook.
pub fn panic_site(m: &str) -> String {
    if let Some(i) = m.find(" @ ") {
        let loc = &m[i + 3..];
        let loc = loc.rsplit('/').next().unwrap_or(loc);
        let parts: Vec<&str> = loc.split(':').collect();
        if parts.len() >= 2 {
            return format!("{}:{}", parts[0], parts[1]);
        }
        return loc.to_string();
    }
    "?".into()
}

/// Unescape one TLC output line; behaviours are printed as <<"BEH", "json">>.
pub fn unescape_line(line: &str) -> Option<String> {
    let l = line.trim();
    let l = l.strip_prefix("<<\"BEH\", ")?;
    let l = l.strip_suffix(">>")?;
    serde_json::from_str::<String>(l).ok()
}

/// Text of the first step of a behaviour (its chain root), without a full parse.
pub fn root_of(inner: &str) -> Option<&str> {
    let i = inner.find("\"steps\":[")? + 9;
    let b = inner.as_bytes();
    if b.get(i) != Some(&b'[') {
        return None;
    }
    let (mut depth, mut in_str, mut esc) = (0i32, false, false);
    for (j, c) in b[i..].iter().enumerate() {
        if in_str {
            if esc {
                esc = false;
            } else if *c == b'\\' {
                esc = true;
            } else if *c == b'"' {
                in_str = false;
            }
            continue;
        }
        match c {
            b'"' => in_str = true,
            b'[' => depth += 1,
            b']' => {
                depth -= 1;
                if depth == 0 {
                    return Some(&inner[i..i + j + 1]);
                }
            }
            _ => {}
        }
    }
    None
}
