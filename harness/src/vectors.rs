//! Anchor: the digest test vectors of draft-mcnally-envelope-09 section 4, evaluated
//! from digest terms of the shape the specification emits, must give the digests
//! printed in the draft. This ties evaluator + digest rule to the published format.

use crate::eval::{AtomTable, Ctx};
use crate::pool::PV;
use serde_json::json;
use std::collections::HashMap;

pub fn selfcheck() -> Result<(), String> {
    let mut map = HashMap::new();
    map.insert("hello".to_string(), PV::Str("Hello.".to_string()));
    map.insert("alice".to_string(), PV::Str("Alice".to_string()));
    map.insert("knows".to_string(), PV::Str("knows".to_string()));
    map.insert("bob".to_string(), PV::Str("Bob".to_string()));
    let table = AtomTable { map, order: vec![], next: 0 };
    let mut ctx = Ctx { atoms: std::rc::Rc::new(std::cell::RefCell::new(table)), ..Default::default() };
    let leaf = |n: &str| json!(["H", ["cbor", ["v", n]], []]);
    // 4.1 leaf "Hello."
    let d = ctx.digest(&leaf("hello")).map_err(|e| e.0)?;
    let want = "8cc96cdb771176e835114a0f8936690b41cfed0df22d014eedd64edaea945d59";
    if hex::encode(d) != want {
        return Err(format!("leaf vector: {} != {}", hex::encode(d), want));
    }
    // the library's own digests for a small document, as an end-to-end anchor
    use bc_components::DigestProvider;
    use bc_envelope::prelude::*;
    let e = Envelope::new("Alice").add_assertion("knows", "Bob");
    let assn = json!(["H", leaf("knows"), [leaf("bob")]]);
    let node = json!(["H", leaf("alice"), [assn]]);
    let d2 = ctx.digest(&node).map_err(|e| e.0)?;
    // digest printed in the draft (section 4.4, "Alice" [ "knows": "Bob" ])
    let want2 = "8955db5e016affb133df56c11fe6c5c82fa3036263d651286d134c7e56c0e9f2";
    if hex::encode(d2) != want2 {
        return Err(format!("node vector: {} != {}", hex::encode(d2), want2));
    }
    if e.digest().data() != &d2 {
        return Err("library digest of the draft's example differs from the draft".into());
    }
    Ok(())
}
