//! Execution of one specification step against the real library.

use crate::eval::Ctx;
use crate::pool::PV;
use crate::project::Keys;
use bc_components::DigestProvider;
use bc_envelope::prelude::*;
use bc_envelope::EnvelopeError;
use serde_json::{json, Value};
use std::collections::HashSet;
use std::panic::{catch_unwind, AssertUnwindSafe};

pub enum Outcome {
    Env(Envelope),
    Err(String),
    Obs(Value),
    Panic(String),
    /// the harness cannot execute this step (tool error, not a verdict)
    Unsupported(String),
}

pub type Regs = Vec<Option<Envelope>>;

fn tag_of(v: &Value) -> &str {
    v.get(0).and_then(|x| x.as_str()).unwrap_or("")
}

pub fn err_kind(e: &anyhow::Error) -> String {
    if let Some(ee) = e.downcast_ref::<EnvelopeError>() {
        format!("{:?}", ee)
    } else {
        format!("other:{}", e)
    }
}

fn res(r: anyhow::Result<Envelope>) -> Outcome {
    match r {
        Ok(e) => Outcome::Env(e),
        Err(e) => Outcome::Err(err_kind(&e)),
    }
}

/// A "simple" abstract envelope (leaf over an atom, or known value) as a typed value.
pub enum SimpleVal {
    P(PV),
    K(u64),
}
impl EnvelopeEncodable for SimpleVal {
    fn into_envelope(self) -> Envelope {
        match self {
            SimpleVal::P(p) => p.into_envelope(),
            SimpleVal::K(n) => Envelope::new(KnownValue::new(n)),
        }
    }
}

pub fn simple(v: &Value, ctx: &Ctx) -> Result<SimpleVal, String> {
    match tag_of(v) {
        "kv" => Ok(SimpleVal::K(v[1].as_u64().unwrap())),
        "leaf" => {
            let atom = &v[1];
            match tag_of(atom) {
                "v" => ctx.atom(atom[1].as_str().unwrap()).map(SimpleVal::P).ok_or(format!("unbound atom {}", atom)),
                "str" => Ok(SimpleVal::P(PV::Str(atom[1].as_str().unwrap().to_string()))),
                "uint" => Ok(SimpleVal::P(PV::U64(atom[1].as_u64().unwrap()))),
                "tkv" => Ok(SimpleVal::P(PV::Tagged(
                    atom[1].as_u64().unwrap(),
                    Box::new(PV::U64(atom[2].as_u64().unwrap())),
                ))),
                // any other atom with deterministic bytes: a leaf holding that CBOR item
                _ => ctx.atom_cbor(atom).map(|b| SimpleVal::P(PV::Raw(b))).map_err(|e| e.0),
            }
        }
        _ => Err(format!("simple: not a simple value {}", v)),
    }
}

fn reg<'a>(regs: &'a Regs, v: &Value) -> Result<&'a Envelope, String> {
    let i = v.as_u64().ok_or(format!("register index {}", v))? as usize;
    regs.get(i - 1).and_then(|x| x.as_ref()).ok_or(format!("register {} empty", i))
}

pub struct Exec<'a> {
    pub ctx: &'a mut Ctx,
    pub keys: &'a Keys,
    /// selects among equivalent entry points
    pub variant: u64,
}

impl<'a> Exec<'a> {
    fn digests(&mut self, t: &Value) -> Result<Vec<Digest>, String> {
        let mut v = vec![];
        for d in t.as_array().ok_or("target set")? {
            let b = self.ctx.digest(d).map_err(|e| e.0)?;
            v.push(Digest::from_data(b));
        }
        Ok(v)
    }

    /// Assemble an abstract envelope through a canonical program of public calls.
    /// The order in which assertions are added is shuffled by the variant.
    pub fn build(&mut self, e: &Value) -> Result<Envelope, String> {
        Ok(match tag_of(e) {
            "leaf" | "kv" => Envelope::new(simple(e, self.ctx)?),
            "assn" => {
                let p = self.build(&e[1])?;
                let o = self.build(&e[2])?;
                Envelope::new_assertion(p, o)
            }
            "wrap" => self.build(&e[1])?.wrap_envelope(),
            "node" => {
                let s = self.build(&e[1])?;
                let mut asv: Vec<Envelope> = vec![];
                for a in e[2].as_array().ok_or("node set")? {
                    asv.push(self.build(a)?);
                }
                // rotate by the variant so that different rounds use different insertion orders
                if !asv.is_empty() {
                    let k = (self.variant as usize) % asv.len();
                    asv.rotate_left(k);
                    if (self.variant >> 8) % 2 == 1 {
                        asv.reverse();
                    }
                }
                if s.is_node() {
                    // a node whose subject is a node cannot be assembled by adding
                    // assertions (they would merge): hide the subject, add, reveal
                    let k = bc_components::SymmetricKey::new();
                    let hidden = s.elide_removing_target_with_action(&s, &ObscureAction::Encrypt(k.clone()));
                    let mut x = hidden;
                    for a in asv {
                        x = x.add_assertion_envelope(a).map_err(|e| e.to_string())?;
                    }
                    x.decrypt_subject(&k).map_err(|e| e.to_string())?
                } else {
                    let mut x = s;
                    for a in asv {
                        x = x.add_assertion_envelope(a).map_err(|e| e.to_string())?;
                    }
                    x
                }
            }
            "elided" => {
                let d = self.ctx.digest(&e[1]).map_err(|e| e.0)?;
                let bytes = crate::cborw::tag(200, &crate::cborw::bytes(&d));
                Envelope::try_from_cbor_data(bytes).map_err(|e| e.to_string())?
            }
            "enc" => {
                // honest ciphertext of the plaintext under the named key
                let p = self.build(&e[4])?;
                let k = &self.keys.sym(e[2].as_str().unwrap_or(""));
                p.elide_removing_target_with_action(&p, &ObscureAction::Encrypt(k.clone()))
            }
            "comp" => {
                let p = self.build(&e[2])?;
                p.compress().map_err(|e| e.to_string())?
            }
            other => return Err(format!("build: cannot build {}", other)),
        })
    }

    fn build_or_kv(&mut self, v: &Value, regs: &Regs) -> Result<Envelope, String> {
        if tag_of(v) == "reg" {
            return reg(regs, &v[1]).cloned();
        }
        self.build(v)
    }

    /// The calls under test are never the first thing the process does.  Before every replayed step a
    /// throw-away envelope of another content goes through the common transformations and is dropped
    /// again (all envelopes are allocations of one size: what is built next tends to land where the
    /// decoy was).  A result must be a function of the arguments - not of what happened to live at an
    /// address, or of what was computed earlier for something else (C02, C13: caches, memos).
    fn decoy(&self, var: u64) {
        static N: std::sync::atomic::AtomicU64 = std::sync::atomic::AtomicU64::new(1);
        let n = N.fetch_add(1, std::sync::atomic::Ordering::Relaxed);
        if n % 3 != 0 {
            return; // one step in three: the replay stays fast
        }
        let d = match (n / 3 + var) % 3 {
            0 => Envelope::new(format!("decoy-{}", n)),
            1 => Envelope::new(n).add_assertion("decoy", n),
            _ => Envelope::new(format!("decoy-{}", n)).wrap_envelope(),
        };
        let _ = d.compress();
        let _ = d.compress_subject();
        let _ = d.elide();
        let _ = d.structural_digest();
        let _ = d.tagged_cbor();
        drop(d);
    }

    fn run(&mut self, step: &Value, regs: &Regs) -> Result<Outcome, String> {
        let op = step[0].as_str().ok_or("op")?;
        let a = |i: usize| &step[i + 2]; // i-th argument (0-based)
        let var = self.variant;
        self.decoy(var);
        Ok(match op {
            "new" => Outcome::Env(Envelope::new(simple(a(0), self.ctx)?)),
            // assembling a shape uses only calls that cannot fail on a correct library: a failure is an outcome
            "build" => match self.build(a(0)) {
                Ok(e) => Outcome::Env(e),
                Err(m) => Outcome::Err(format!("other:build: {}", m)),
            },
            "decorate" => {
                // an existing assertion gets an assertion of its own (a note), as a holder annotating it would do
                let e = reg(regs, a(0))?;
                let d = self.ctx.digest(a(1)).map_err(|e| e.0)?;
                let target = e.assertions().into_iter().find(|x| x.digest().data() == &d).ok_or("decorate: no such assertion")?;
                let decorated = target.add_assertion(known_values::NOTE, "d");
                res(e.replace_assertion(target, decorated))
            }
            "new_assertion" => {
                let (p, o) = (simple(a(0), self.ctx)?, simple(a(1), self.ctx)?);
                if var % 2 == 0 {
                    Outcome::Env(Envelope::new_assertion(p, o))
                } else {
                    Outcome::Env(Envelope::new(bc_envelope::Assertion::new(p, o)))
                }
            }
            "new_assertion_env" => {
                let (p, o) = (reg(regs, a(0))?.clone(), reg(regs, a(1))?.clone());
                Outcome::Env(Envelope::new_assertion(p, o))
            }
            "add_assertion" => {
                let e = reg(regs, a(0))?;
                let (p, o) = (simple(a(1), self.ctx)?, simple(a(2), self.ctx)?);
                match var % 4 {
                    0 => Outcome::Env(e.add_assertion(p, o)),
                    1 => Outcome::Env(e.add_optional_assertion(p, Some(o))),
                    2 => Outcome::Env(e.add_assertion_if(true, p, o)),
                    _ => Outcome::Env(e.add_assertion_salted(p, o, false)),
                }
            }
            "add_assertion_po" => {
                let e = reg(regs, a(0))?;
                let (p, o) = (reg(regs, a(1))?.clone(), reg(regs, a(2))?.clone());
                Outcome::Env(e.add_assertion(p, o))
            }
            "add_assertion_envelope" => {
                let e = reg(regs, a(0))?;
                let x = reg(regs, a(1))?.clone();
                match var % 5 {
                    0 => res(e.add_assertion_envelope(x)),
                    1 => res(e.add_optional_assertion_envelope(Some(x))),
                    2 => res(e.add_assertion_envelopes(&[x])),
                    3 => res(e.add_assertion_envelope_if(true, x)),
                    _ => res(e.add_assertion_envelope_salted(x, false)),
                }
            }
            "add_nothing" => {
                let e = reg(regs, a(0))?;
                match a(1).as_str().unwrap_or("") {
                    "optional_none" => Outcome::Env(e.add_optional_assertion("p", None::<String>)),
                    "if_false" => Outcome::Env(e.add_assertion_if(false, "p", "o")),
                    "empty_string" => Outcome::Env(e.add_nonempty_string_assertion("p", "")),
                    "optional_envelope_none" => res(e.add_optional_assertion_envelope(None)),
                    "envelope_if_false" => res(e.add_assertion_envelope_if(false, Envelope::new("not an assertion"))),
                    "salted_none" => res(e.add_optional_assertion_envelope_salted(None, true)),
                    "assertions_empty" => Outcome::Env(e.add_assertions(&[])),
                    "add_assertion_envelopes_empty" => res(e.add_assertion_envelopes(&[])),
                    k => return Err(format!("noop kind {}", k)),
                }
            }
            "add_assertions" => {
                let e = reg(regs, a(0))?;
                let mut xs: Vec<Envelope> = vec![];
                for r in a(1).as_array().ok_or("register list")? {
                    xs.push(reg(regs, r)?.clone());
                }
                // add_assertions / add_assertions_salted unwrap internally: handing them a
                // non-assertion is a documented caller error, so they are only used when every
                // element may legally stand in an assertion position
                let all_ok = xs.iter().all(|x| x.is_subject_assertion() || x.is_subject_obscured());
                match (var % 3, all_ok) {
                    (0, true) => Outcome::Env(e.add_assertions(&xs)),
                    (1, true) => Outcome::Env(e.add_assertions_salted(&xs, false)),
                    _ => res(e.add_assertion_envelopes(&xs)),
                }
            }
            "remove_assertion" => {
                let e = reg(regs, a(0))?;
                Outcome::Env(e.remove_assertion(reg(regs, a(1))?.clone()))
            }
            "replace_assertion" => {
                let e = reg(regs, a(0))?;
                res(e.replace_assertion(reg(regs, a(1))?.clone(), reg(regs, a(2))?.clone()))
            }
            "replace_subject" => {
                let e = reg(regs, a(0))?;
                Outcome::Env(e.replace_subject(reg(regs, a(1))?.clone()))
            }
            "subject" => Outcome::Env(reg(regs, a(0))?.subject()),
            "assertion_with_digest" => {
                let e = reg(regs, a(0))?;
                let d = self.ctx.digest(a(1)).map_err(|e| e.0)?;
                match e.assertions().into_iter().find(|x| x.digest().data() == &d) {
                    Some(x) => Outcome::Env(x),
                    None => Outcome::Err("no assertion with that digest".into()),
                }
            }
            "as_predicate" => {
                let e = reg(regs, a(0))?;
                if var % 2 == 0 {
                    res(e.try_predicate())
                } else {
                    match e.as_predicate() {
                        Some(x) => Outcome::Env(x),
                        None => Outcome::Err("NotAssertion".into()),
                    }
                }
            }
            "as_object" => {
                let e = reg(regs, a(0))?;
                if var % 2 == 0 {
                    res(e.try_object())
                } else {
                    match e.as_object() {
                        Some(x) => Outcome::Env(x),
                        None => Outcome::Err("NotAssertion".into()),
                    }
                }
            }
            "wrap" => Outcome::Env(reg(regs, a(0))?.wrap_envelope()),
            "unwrap" => res(reg(regs, a(0))?.unwrap_envelope()),
            "elide" => Outcome::Env(reg(regs, a(0))?.elide()),
            "elide_set" => {
                let e = reg(regs, a(0))?;
                let ds = self.digests(a(1))?;
                let rev = a(2).as_bool().ok_or("rev")?;
                let act = a(3);
                let action = match tag_of(act) {
                    "elide" => ObscureAction::Elide,
                    "compress" => ObscureAction::Compress,
                    "encrypt" => {
                        let k = &self.keys.sym(act[1].as_str().unwrap());
                        ObscureAction::Encrypt(k.clone())
                    }
                    _ => return Err(format!("action {}", act)),
                };
                let set: HashSet<Digest> = ds.iter().cloned().collect();
                let provs: Vec<&dyn DigestProvider> = ds.iter().map(|d| d as &dyn DigestProvider).collect();
                let plain = matches!(action, ObscureAction::Elide);
                let mut choices: Vec<u8> = vec![0, 1, 2, 3];
                if plain {
                    choices.extend([4, 5, 6, 7]);
                }
                if ds.len() == 1 {
                    choices.extend([8, 9]);
                    if plain {
                        choices.extend([10, 11]);
                    }
                }
                let c = choices[(var as usize) % choices.len()];
                Outcome::Env(match (c, rev) {
                    (0, _) => e.elide_set_with_action(&set, rev, &action),
                    (1, _) => e.elide_array_with_action(&provs, rev, &action),
                    (2, false) => e.elide_removing_set_with_action(&set, &action),
                    (2, true) => e.elide_revealing_set_with_action(&set, &action),
                    (3, false) => e.elide_removing_array_with_action(&provs, &action),
                    (3, true) => e.elide_revealing_array_with_action(&provs, &action),
                    (4, _) => e.elide_set(&set, rev),
                    (5, _) => e.elide_array(&provs, rev),
                    (6, false) => e.elide_removing_set(&set),
                    (6, true) => e.elide_revealing_set(&set),
                    (7, false) => e.elide_removing_array(&provs),
                    (7, true) => e.elide_revealing_array(&provs),
                    (8, _) => e.elide_target_with_action(provs[0], rev, &action),
                    (9, false) => e.elide_removing_target_with_action(provs[0], &action),
                    (9, true) => e.elide_revealing_target_with_action(provs[0], &action),
                    (10, _) => e.elide_target(provs[0], rev),
                    (11, false) => e.elide_removing_target(provs[0]),
                    (11, true) => e.elide_revealing_target(provs[0]),
                    _ => unreachable!(),
                })
            }
            "unelide" => {
                let e = reg(regs, a(0))?;
                res(e.unelide(reg(regs, a(1))?.clone()))
            }
            "compress" => res(reg(regs, a(0))?.compress()),
            "uncompress" => res(reg(regs, a(0))?.uncompress()),
            "compress_subject" => res(reg(regs, a(0))?.compress_subject()),
            "uncompress_subject" => res(reg(regs, a(0))?.uncompress_subject()),
            "encrypt_subject" => {
                let k = &self.keys.sym(a(1).as_str().unwrap());
                let e = reg(regs, a(0))?;
                match var % 3 {
                    0 => res(e.encrypt_subject(k)),
                    1 => res(e.encrypt_subject_opt(k, None)),
                    _ => {
                        // a caller-supplied nonce: the result is a function of (envelope, key, nonce)
                        let nonce = bc_components::Nonce::new();
                        let r1 = e.encrypt_subject_opt(k, Some(nonce.clone()));
                        let r2 = e.encrypt_subject_opt(k, Some(nonce));
                        if let (Ok(x), Ok(y)) = (&r1, &r2) {
                            if x.tagged_cbor().to_cbor_data() != y.tagged_cbor().to_cbor_data() {
                                return Err("#variant:encrypt_subject_opt# the same nonce gives two different encryptions".into());
                            }
                        }
                        res(r1)
                    }
                }
            }
            "decrypt_subject" => {
                let k = &self.keys.sym(a(1).as_str().unwrap());
                res(reg(regs, a(0))?.decrypt_subject(k))
            }
            "encrypt" => {
                let k = &self.keys.sym(a(1).as_str().unwrap());
                Outcome::Env(reg(regs, a(0))?.encrypt(k))
            }
            "decrypt" => {
                let k = &self.keys.sym(a(1).as_str().unwrap());
                res(reg(regs, a(0))?.decrypt(k))
            }
            "forge_encrypted" => {
                // a key holder encrypts content P but declares the digest of another envelope
                let p = reg(regs, a(0))?;
                let d = reg(regs, a(1))?;
                let k = &self.keys.sym(a(2).as_str().unwrap());
                let msg = k.encrypt_with_digest(p.tagged_cbor().to_cbor_data(), d.digest().into_owned(), None::<bc_components::Nonce>);
                res(Envelope::try_from(msg))
            }
            "forge_compressed" => {
                let p = reg(regs, a(0))?;
                let d = reg(regs, a(1))?;
                let c = bc_components::Compressed::from_uncompressed_data(p.tagged_cbor().to_cbor_data(), Some(d.digest().into_owned()));
                res(Envelope::try_from(c))
            }
            "tamper" => {
                use bc_components::{AuthenticationTag, EncryptedMessage, Nonce};
                let e = reg(regs, a(0))?;
                let field = a(1).as_str().ok_or("field")?;
                let subj = e.subject();
                let msg = match subj.case() {
                    bc_envelope::base::envelope::EnvelopeCase::Encrypted(m) => m.clone(),
                    _ => return Err("tamper: subject not encrypted".into()),
                };
                let mut ct = msg.ciphertext().clone();
                let mut nonce = msg.nonce().data().to_vec();
                // which bit is flipped is a function of the element (its random nonce), not of the call: the
                // specification gives "the same element tampered in the same field" one identity
                let var = (nonce[0] as u64) | ((nonce[1] as u64) << 8) | ((nonce[2] as u64) << 16);
                let bit = (var % 8) as u8;
                let mut tag = msg.authentication_tag().data().to_vec();
                let mut aad = msg.aad().clone();
                match field {
                    "ciphertext" => {
                        let i = (var as usize / 8) % ct.len().max(1);
                        if ct.is_empty() { ct.push(1) } else { ct[i] ^= 1 << bit }
                    }
                    "nonce" => {
                        let i = (var as usize / 8) % nonce.len();
                        nonce[i] ^= 1 << bit
                    }
                    "tag" => {
                        let i = (var as usize / 8) % tag.len();
                        tag[i] ^= 1 << bit
                    }
                    "aad" => {
                        // declare another digest (the specification's Absent digest)
                        let d = self.ctx.digest(&serde_json::json!(["X", 0])).map_err(|e| e.0)?;
                        let c: dcbor::CBOR = Digest::from_data(d).into();
                        aad = c.to_cbor_data();
                    }
                    _ => return Err("tamper field".into()),
                }
                let m2 = EncryptedMessage::new(ct, aad, Nonce::from_data_ref(&nonce).map_err(|e| e.to_string())?,
                    AuthenticationTag::from_data_ref(&tag).map_err(|e| e.to_string())?);
                let t = Envelope::try_from(m2).map_err(|e| e.to_string())?;
                Outcome::Env(if e.is_node() { e.replace_subject(t) } else { t })
            }
            "corrupt" => {
                let e = reg(regs, a(0))?;
                let how = a(1).as_str().ok_or("how")?;
                let c = match e.case() {
                    bc_envelope::base::envelope::EnvelopeCase::Compressed(c) => c.clone(),
                    _ => return Err("corrupt: not compressed".into()),
                };
                // take the container apart through its CBOR form
                let arr = c.untagged_cbor().try_into_array().map_err(|e| e.to_string())?;
                let mut checksum: u32 = arr[0].clone().try_into().map_err(|e: anyhow::Error| e.to_string())?;
                let size: usize = arr[1].clone().try_into().map_err(|e: anyhow::Error| e.to_string())?;
                let mut data: Vec<u8> = arr[2].clone().try_into_byte_string().map_err(|e| e.to_string())?;
                let digest = c.digest_ref_opt().cloned();
                let original = c.uncompress().map_err(|e| e.to_string())?;
                // an *effective* corruption: the container must no longer inflate to the original
                // content (a flipped padding bit of a DEFLATE stream, for instance, changes nothing)
                let effective = |d: &Vec<u8>, ck: u32| -> bool {
                    match bc_components::Compressed::new(ck, size, d.clone(), digest.clone()) {
                        Ok(c2) => c2.uncompress().map(|u| u != original).unwrap_or(true),
                        Err(_) => false,
                    }
                };
                match how {
                    "data" => {
                        if data.is_empty() { return Err("corrupt: empty".into()) }
                        let n = data.len();
                        let start = (var as usize) % n;
                        let mut done = false;
                        for off in 0..n {
                            let i = (start + off) % n;
                            for bit in [0x20u8, 0x01, 0x80, 0x08] {
                                let mut d2 = data.clone();
                                d2[i] ^= bit;
                                if effective(&d2, checksum) {
                                    data = d2;
                                    done = true;
                                    break;
                                }
                            }
                            if done { break }
                        }
                        if !done { return Err("corrupt: no effective corruption found".into()) }
                    }
                    "checksum" => {
                        checksum ^= 0x5a5a;
                        if !effective(&data, checksum) {
                            // stored raw: the checksum is not consulted; corrupt the data instead
                            let i = (var as usize) % data.len().max(1);
                            data[i] ^= 0x01;
                        }
                    }
                    "truncate" => {
                        if data.len() < 2 { return Err("corrupt: too short".into()) }
                        data.truncate(data.len() - 1);
                    }
                    _ => return Err("corrupt how".into()),
                }
                match bc_components::Compressed::new(checksum, size, data, digest) {
                    Ok(c2) => res(Envelope::try_from(c2)),
                    Err(e) => return Err(format!("corrupt: container refuses: {}", e)),
                }
            }

            // ---- salt ----
            "add_salt" => {
                let e = reg(regs, a(0))?;
                match var % 3 {
                    0 => Outcome::Env(e.add_salt()),
                    1 => Outcome::Env(e.add_salt_using(&mut bc_rand::SecureRandomNumberGenerator)),
                    _ => {
                        // with a supplied generator the result is a function of the generator's state
                        let x = e.add_salt_using(&mut bc_rand::make_fake_random_number_generator());
                        let y = e.add_salt_using(&mut bc_rand::make_fake_random_number_generator());
                        if !x.is_identical_to(&y) {
                            return Err("#variant:add_salt_using# equal generators give different salts".into());
                        }
                        Outcome::Env(e.add_salt_using(&mut bc_rand::SecureRandomNumberGenerator))
                    }
                }
            }
            "add_salt_with_len" => {
                let n = a(1).as_u64().unwrap() as usize;
                if var % 2 == 0 { res(reg(regs, a(0))?.add_salt_with_len(n)) } else { res(reg(regs, a(0))?.add_salt_with_len_using(n, &mut bc_rand::SecureRandomNumberGenerator)) }
            }
            "add_salt_in_range" => {
                let (lo, hi) = (a(1).as_u64().unwrap() as usize, a(2).as_u64().unwrap() as usize);
                if var % 2 == 0 { res(reg(regs, a(0))?.add_salt_in_range(lo..=hi)) } else { res(reg(regs, a(0))?.add_salt_in_range_using(&(lo..=hi), &mut bc_rand::SecureRandomNumberGenerator)) }
            }
            "add_assertion_salted" => {
                let e = reg(regs, a(0))?;
                let (p, o) = (simple(a(1), self.ctx)?, simple(a(2), self.ctx)?);
                let salted = a(3).as_bool().ok_or("salted")?;
                if var % 2 == 0 {
                    Outcome::Env(e.add_assertion_salted(p, o, salted))
                } else {
                    let x = Envelope::new_assertion(p, o);
                    res(e.add_optional_assertion_envelope_salted(Some(x), salted))
                }
            }
            "add_assertion_envelope_salted" => {
                let e = reg(regs, a(0))?;
                let x = reg(regs, a(1))?.clone();
                let salted = a(2).as_bool().ok_or("salted")?;
                let all_ok = x.is_subject_assertion() || x.is_subject_obscured();
                match (var % 2, all_ok) {
                    (0, true) => Outcome::Env(e.add_assertions_salted(&[x], salted)),
                    _ => res(e.add_assertion_envelope_salted(x, salted)),
                }
            }
            // ---- signatures ----
            "add_signature" => {
                let e = reg(regs, a(0))?;
                let sk = self.keys.signer(a(1).as_str().unwrap_or(""));
                let meta_set = a(2).as_array().ok_or("meta")?;
                if meta_set.is_empty() {
                    match (var % 3, !sk.ssh) {
                        (0, true) => Outcome::Env(e.add_signature(&sk.private)),
                        (1, true) => Outcome::Env(e.add_signatures(&[&sk.private])),
                        _ => Outcome::Env(e.add_signature_opt(&sk.private, sk.options(), None)),
                    }
                } else {
                    let mut md = SignatureMetadata::new();
                    for m in meta_set {
                        let p = self.build(&m[1])?;
                        let ob = self.build(&m[2])?;
                        md = md.with_assertion(p, ob);
                    }
                    if var % 2 == 0 {
                        Outcome::Env(e.add_signature_opt(&sk.private, sk.options(), Some(md)))
                    } else {
                        Outcome::Env(e.add_signatures_opt(&[(&sk.private as &dyn bc_components::Signer, sk.options(), Some(md))]))
                    }
                }
            }
            "sign" => {
                let e = reg(regs, a(0))?;
                let sk = self.keys.signer(a(1).as_str().unwrap_or(""));
                if !sk.ssh && var % 2 == 0 {
                    Outcome::Env(e.sign(&sk.private))
                } else {
                    Outcome::Env(e.sign_opt(&sk.private, sk.options()))
                }
            }
            "forge_signed" => {
                use bc_components::Signer;
                let e = reg(regs, a(0))?;
                let kind = a(1).as_str().ok_or("kind")?;
                let s1r = self.keys.signer(a(2).as_str().unwrap_or(""));
                let s1 = &*s1r;
                let s2r = self.keys.signer(a(3).as_str().unwrap_or(""));
                let s2 = &*s2r;
                let signed = known_values::SIGNED;
                let sign = |k: &crate::project::SignerKey, msg: &[u8]| -> Result<Envelope, String> {
                    k.private.sign_with_options(&msg, k.options()).map(Envelope::new).map_err(|e| e.to_string())
                };
                let subject_digest = e.subject().digest().data().to_vec();
                let absent = self.ctx.digest(&serde_json::json!(["X", 1])).map_err(|e| e.0)?.to_vec();
                let good = sign(s1, &subject_digest)?;
                let wrapped = |inner: Envelope| inner.add_assertion(known_values::NOTE, "n").wrap_envelope();
                let obj: Envelope = match kind {
                    "other_subject" => sign(s1, &absent)?,
                    "unsigned_wrapper" => wrapped(good),
                    "foreign_wrapper" => {
                        let w = wrapped(good);
                        let outer = sign(s2, w.digest().data())?;
                        w.add_assertion(signed, outer)
                    }
                    "two_outer" => {
                        let w = wrapped(good);
                        let o1 = sign(s1, w.digest().data())?;
                        let o2 = sign(s2, w.digest().data())?;
                        w.add_assertion(known_values::SIGNED, o1).add_assertion(known_values::SIGNED, o2)
                    }
                    "junk" => Envelope::new("junk"),
                    "junk_outer" => wrapped(good).add_assertion(signed, "junk"),
                    "inner_other" => {
                        let w = wrapped(sign(s1, &absent)?);
                        let outer = sign(s1, w.digest().data())?;
                        w.add_assertion(signed, outer)
                    }
                    "decorated" => {
                        let assertion = Envelope::new_assertion(known_values::SIGNED, good);
                        return Ok(res(e.add_assertion_envelope_salted(assertion, true)));
                    }
                    _ => return Err(format!("forge kind {}", kind)),
                };
                Outcome::Env(e.add_assertion(known_values::SIGNED, obj))
            }
            // ---- recipients ----
            "encrypt_subject_to_recipients" => {
                use bc_components::Encrypter;
                let e = reg(regs, a(0))?;
                let mut held = vec![];
                for r in a(1).as_array().ok_or("recipients")? {
                    held.push(self.keys.recipient(r.as_str().unwrap_or("")));
                }
                let pubs: Vec<&dyn Encrypter> = held.iter().map(|h| &h.public as &dyn Encrypter).collect();
                if pubs.len() == 1 && var % 2 == 0 {
                    res(e.encrypt_subject_to_recipient(pubs[0]))
                } else {
                    res(e.encrypt_subject_to_recipients(&pubs))
                }
            }
            "encrypt_to_recipient" => {
                let e = reg(regs, a(0))?;
                let rk = self.keys.recipient(a(1).as_str().unwrap_or(""));
                Outcome::Env(e.encrypt_to_recipient(&rk.public))
            }
            "add_recipient" => {
                let e = reg(regs, a(0))?;
                let rk = self.keys.recipient(a(1).as_str().unwrap_or(""));
                let k = &self.keys.sym(a(2).as_str().unwrap_or(""));
                match var % 3 {
                    0 => Outcome::Env(e.add_recipient(&rk.public, k)),
                    1 => Outcome::Env(e.add_recipient_opt(&rk.public, k, None)),
                    _ => Outcome::Env(e.add_recipient_opt(&rk.public, k, Some(&bc_components::Nonce::new()))),
                }
            }
            "share_with" => {
                // an existing recipient opens the content key and shares it with a further recipient
                let e = reg(regs, a(0))?;
                let r0 = self.keys.recipient(a(1).as_str().unwrap_or(""));
                let r1 = self.keys.recipient(a(2).as_str().unwrap_or(""));
                let sealed = e.recipients().map_err(|e| e.to_string())?;
                let mut key = None;
                for sm in sealed {
                    // (a key is only tried on sealed messages of its own scheme: the decapsulation of the
                    // dependency panics on another ML-KEM level - finding D13)
                    if sm.encapsulation_scheme() != r0.private.encapsulation_scheme() {
                        continue;
                    }
                    if let Ok(p) = sm.decrypt(&r0.private) {
                        key = Some(bc_components::SymmetricKey::from_tagged_cbor_data(p).map_err(|e| e.to_string())?);
                        break;
                    }
                }
                let key = key.ok_or("share_with: r0 cannot open")?;
                Outcome::Env(e.add_recipient(&r1.public, &key))
            }
            "decrypt_subject_to_recipient" => {
                let rk = self.keys.recipient(a(1).as_str().unwrap_or(""));
                res(reg(regs, a(0))?.decrypt_subject_to_recipient(&rk.private))
            }
            "decrypt_to_recipient" => {
                let rk = self.keys.recipient(a(1).as_str().unwrap_or(""));
                res(reg(regs, a(0))?.decrypt_to_recipient(&rk.private))
            }
            "seal" => {
                let e = reg(regs, a(0))?;
                let sk = self.keys.signer(a(1).as_str().unwrap_or(""));
                let rk = self.keys.recipient(a(2).as_str().unwrap_or(""));
                if !sk.ssh && var % 2 == 0 {
                    Outcome::Env(e.seal(&sk.private, &rk.public))
                } else {
                    Outcome::Env(e.seal_opt(&sk.private, &rk.public, sk.options()))
                }
            }
            "unseal" => {
                let e = reg(regs, a(0))?;
                let sk = self.keys.signer(a(1).as_str().unwrap_or(""));
                let rk = self.keys.recipient(a(2).as_str().unwrap_or(""));
                res(e.unseal(&sk.public, &rk.private))
            }
            // ---- SSKR ----
            "sskr_split_join" | "sskr_split_pick" => {
                use bc_envelope::extension::sskr::{SSKRGroupSpec, SSKRSpec};
                let e = reg(regs, a(0))?;
                let k = &self.keys.sym(a(1).as_str().unwrap_or(""));
                let pol = a(2);
                let mut groups = vec![];
                for g in pol[1].as_array().ok_or("policy")? {
                    groups.push(SSKRGroupSpec::new(g[0].as_u64().unwrap() as usize, g[1].as_u64().unwrap() as usize).map_err(|e| format!("policy refused by the dependency: {}", e))?);
                }
                let spec = SSKRSpec::new(pol[0].as_u64().unwrap() as usize, groups).map_err(|e| format!("policy refused by the dependency: {}", e))?;
                // the three entry points: grouped, flattened (regrouped here by the policy's group sizes), with a supplied generator
                let sizes: Vec<usize> = pol[1].as_array().ok_or("policy")?.iter().map(|g| g[1].as_u64().unwrap() as usize).collect();
                let split_once = |v: u64| -> Result<Vec<Vec<Envelope>>, String> {
                    match v % 3 {
                        0 => e.sskr_split(&spec, k).map_err(|e| e.to_string()),
                        1 => {
                            let flat = e.sskr_split_flattened(&spec, k).map_err(|e| e.to_string())?;
                            if flat.len() != sizes.iter().sum::<usize>() {
                                return Err(format!("#variant:sskr_split_flattened# {} shares for a policy with {} members", flat.len(), sizes.iter().sum::<usize>()));
                            }
                            let mut it = flat.into_iter();
                            Ok(sizes.iter().map(|n| it.by_ref().take(*n).collect()).collect())
                        }
                        _ => {
                            let x = e.sskr_split_using(&spec, k, &mut bc_rand::make_fake_random_number_generator()).map_err(|e| e.to_string())?;
                            let y = e.sskr_split_using(&spec, k, &mut bc_rand::make_fake_random_number_generator()).map_err(|e| e.to_string())?;
                            let same = x.len() == y.len() && x.iter().zip(y.iter()).all(|(g, h)| g.len() == h.len() && g.iter().zip(h.iter()).all(|(p, q)| p.is_identical_to(q) && p.tagged_cbor().to_cbor_data() == q.tagged_cbor().to_cbor_data()));
                            if !same {
                                return Err("#variant:sskr_split_using# equal generators give different shares".into());
                            }
                            e.sskr_split_using(&spec, k, &mut bc_rand::SecureRandomNumberGenerator).map_err(|e| e.to_string())
                        }
                    }
                };
                let mut shares: Vec<Vec<Envelope>> = split_once(var)?;
                if op == "sskr_split_pick" {
                    // The specification assumes that two splits get different identifiers (a 16-bit random
                    // number in SSKR; join groups shares by it).  Redo a split whose identifier happens to be
                    // the one of another split of this history, so that the assumption holds in every replay.
                    let ident = |sh: &Vec<Vec<Envelope>>| -> Option<u16> {
                        sh[0][0].objects_for_predicate(known_values::SSKR_SHARE).first()
                            .and_then(|o| o.extract_subject::<bc_components::SSKRShare>().ok()).map(|s| s.identifier())
                    };
                    for _ in 0..16 {
                        let id = ident(&shares);
                        if id.is_none() || !self.ctx.splits.values().any(|other| ident(other) == id) {
                            break;
                        }
                        shares = split_once(var)?;
                    }
                    let (g, m) = (a(3).as_u64().unwrap() as usize, a(4).as_u64().unwrap() as usize);
                    self.ctx.splits.insert(a(5).to_string(), shares.clone());
                    Outcome::Env(shares[g - 1][m - 1].clone())
                } else {
                    let mut chosen: Vec<&Envelope> = vec![];
                    for x in a(3).as_array().ok_or("subset")? {
                        let (g, m) = (x[0].as_u64().unwrap() as usize, x[1].as_u64().unwrap() as usize);
                        chosen.push(&shares[g - 1][m - 1]);
                    }
                    // present the shares in a round dependent order
                    if !chosen.is_empty() {
                        let r = (var as usize) % chosen.len();
                        chosen.rotate_left(r);
                    }
                    res(Envelope::sskr_join(&chosen))
                }
            }
            "sskr_pick_more" => {
                // another share of the same split, carried by what the register holds NOW (it may have been
                // annotated since the split): its own share assertion is exchanged for the other one
                let e = reg(regs, a(0))?;
                let shares = self.ctx.splits.get(&a(1).to_string()).ok_or("sskr_pick_more: split not cached")?;
                let (g, m) = (a(2).as_u64().unwrap() as usize, a(3).as_u64().unwrap() as usize);
                // the share assertion a split added to a member = what that member's envelope has and the split's
                // source had not (the source may already have carried shares of an earlier split)
                let members: Vec<&Envelope> = shares.iter().flatten().collect();
                let own = |s: &Envelope| -> Vec<Envelope> {
                    s.assertions_with_predicate(known_values::SSKR_SHARE).into_iter()
                        .filter(|x| members.len() < 2 || !members.iter().all(|o| o.assertions().iter().any(|y| y.digest() == x.digest())))
                        .collect()
                };
                let of_split: Vec<Envelope> = members.iter().flat_map(|s| own(s)).collect();
                let mine = e.assertions_with_predicate(known_values::SSKR_SHARE).into_iter().find(|x| of_split.iter().any(|y| y.digest() == x.digest()))
                    .ok_or("sskr_pick_more: the register holds no share of that split")?;
                let other = own(&shares[g - 1][m - 1]).into_iter().next().ok_or("sskr_pick_more: share")?;
                res(e.remove_assertion(mine).add_assertion_envelope(other))
            }
            "sskr_join" => {
                let mut envs: Vec<&Envelope> = vec![];
                for r in a(0).as_array().ok_or("regs")? {
                    envs.push(reg(regs, r)?);
                }
                res(Envelope::sskr_join(&envs))
            }
            // ---- proofs ----
            "proof_contains_set" => {
                let e = reg(regs, a(0))?;
                let ds = self.digests(a(1))?;
                let p = if ds.len() == 1 && var % 2 == 0 {
                    e.proof_contains_target(&ds[0])
                } else {
                    e.proof_contains_set(&ds.iter().cloned().collect())
                };
                match p {
                    Some(x) => Outcome::Env(x),
                    None => Outcome::Err("none".into()),
                }
            }
            // ---- types, attachments ----
            "add_type" => {
                let e = reg(regs, a(0))?;
                Outcome::Env(e.add_type(simple(a(1), self.ctx)?))
            }
            "add_attachment" => {
                let e = reg(regs, a(0))?;
                let payload = reg(regs, a(1))?.clone();
                let vendor = a(2).as_str().ok_or("vendor")?;
                let conf = a(3).as_str().filter(|c| *c != "~none~");
                match var % 3 {
                    0 => Outcome::Env(e.add_attachment(payload, vendor, conf)),
                    1 => res(e.add_assertion_envelope(Envelope::new_attachment(payload, vendor, conf))),
                    _ => res(e.add_assertion_envelope(bc_envelope::Assertion::new_attachment(payload, vendor, conf))),
                }
            }
            "attach_container" => {
                use bc_envelope::{Attachable, Attachments};
                struct Holder {
                    attachments: Attachments,
                }
                bc_envelope::impl_attachable!(Holder);
                let e = reg(regs, a(0))?;
                let mut items: Vec<(Envelope, String, Option<String>)> = vec![];
                for x in a(1).as_array().ok_or("list")? {
                    items.push((reg(regs, &x[0])?.clone(), x[1].as_str().unwrap_or("").to_string(), x[2].as_str().filter(|c| *c != "~none~").map(|c| c.to_string())));
                }
                if var % 2 == 1 {
                    items.reverse();
                }
                if var % 4 < 2 {
                    let mut c = Attachments::new();
                    for (p, v, cf) in &items {
                        c.add(p.clone(), v, cf.as_deref());
                    }
                    if c.is_empty() {
                        return Err("#variant:attachments_container# container empty after add".into());
                    }
                    Outcome::Env(c.add_to_envelope(e.clone()))
                } else {
                    // through the Attachable trait
                    let mut h = Holder { attachments: Attachments::new() };
                    for (p, v, cf) in &items {
                        h.add_attachment(p.clone(), v, cf.as_deref());
                    }
                    if !h.has_attachments() {
                        return Err("#variant:attachments_container# holder has no attachments after add".into());
                    }
                    Outcome::Env(h.attachments().add_to_envelope(e.clone()))
                }
            }
            "add_bad_attachment" => {
                let e = reg(regs, a(0))?;
                let payload = reg(regs, a(1))?.clone();
                let kind = a(2).as_str().ok_or("kind")?;
                let good_obj = || payload.clone().wrap_envelope().add_assertion(known_values::VENDOR, "v1").add_assertion(known_values::CONFORMS_TO, "c1");
                let obj = match kind {
                    "no_vendor" => payload.clone().wrap_envelope().add_assertion(known_values::CONFORMS_TO, "c1"),
                    "two_vendors" => good_obj().add_assertion(known_values::VENDOR, "v2"),
                    "no_wrap" => payload.clone().add_assertion(known_values::VENDOR, "v1"),
                    "extra" => good_obj().add_assertion(known_values::NOTE, "n"),
                    "two_conforms" => good_obj().add_assertion(known_values::CONFORMS_TO, "c2"),
                    "vendor_not_string" => payload.clone().wrap_envelope().add_assertion(known_values::VENDOR, known_values::IS_A),
                    _ => return Err(format!("bad attachment kind {}", kind)),
                };
                res(e.add_assertion_envelope(Envelope::new_assertion(known_values::ATTACHMENT, obj)))
            }

            // ---- expressions ----
            "expression" | "request" => {
                use bc_envelope::prelude::*;
                let f = a(0);
                let function = if f[0].as_str() == Some("k") {
                    if var % 2 == 0 { Function::new_known(f[1].as_u64().unwrap(), None) } else { Function::new_known(f[1].as_u64().unwrap(), Some("named".into())) }
                } else if var % 4 < 2 {
                    Function::new_named(f[1].as_str().unwrap())
                } else {
                    Function::new_static_named(match f[1].as_str().unwrap() { "f" => "f", "1" => "1", _ => "other" })
                };
                let mk_param = |q: &Value| -> Parameter {
                    if q[0].as_str() == Some("k") { Parameter::new_known(q[1].as_u64().unwrap(), None) } else { Parameter::new_named(q[1].as_str().unwrap()) }
                };
                if op == "expression" {
                    let mut x = Expression::new(function);
                    for p in a(1).as_array().ok_or("params")? {
                        let v = reg(regs, &p[1])?.clone();
                        x = if var % 3 == 0 { x.with_optional_parameter(mk_param(&p[0]), Some(v)) } else { x.with_parameter(mk_param(&p[0]), v) };
                    }
                    Outcome::Env(x.into())
                } else {
                    let id = bc_components::ARID::from_data([a(2).as_u64().unwrap() as u8; 32]);
                    let mut x = Request::new(function, id);
                    for p in a(1).as_array().ok_or("params")? {
                        let v = reg(regs, &p[1])?.clone();
                        x = x.with_parameter(mk_param(&p[0]), v);
                    }
                    let note = a(3).as_str().unwrap_or("");
                    if !note.is_empty() || var % 2 == 0 {
                        x = x.with_note(note);
                    }
                    if let Some(d) = date_of(a(4)) {
                        x = x.with_date(d);
                    }
                    Outcome::Env(x.into())
                }
            }
            "response" => {
                use bc_envelope::prelude::*;
                let id = bc_components::ARID::from_data([a(1).as_u64().unwrap() as u8; 32]);
                let payload = self.build_or_kv(a(2), regs)?;
                let default_ok = tag_of(a(2)) == "kv" && a(2)[1].as_u64() == Some(103);
                let default_unknown = tag_of(a(2)) == "kv" && a(2)[1].as_u64() == Some(17);
                let r = match a(0).as_str().unwrap_or("") {
                    "success" => if default_ok && var % 2 == 0 { Response::new_success(id) } else { Response::new_success(id).with_result(payload) },
                    "failure" => if default_unknown && var % 2 == 0 { Response::new_failure(id) } else { Response::new_failure(id).with_error(payload) },
                    _ => if default_unknown && var % 2 == 0 { Response::new_early_failure() } else { Response::new_early_failure().with_error(payload) },
                };
                Outcome::Env(r.into())
            }
            "event" => {
                use bc_envelope::prelude::*;
                let content = reg(regs, a(0))?.clone();
                let id = bc_components::ARID::from_data([a(1).as_u64().unwrap() as u8; 32]);
                let mut x: Event<Envelope> = Event::new(content, id);
                let note = a(2).as_str().unwrap_or("");
                if !note.is_empty() || var % 2 == 0 {
                    x = x.with_note(note);
                }
                if let Some(d) = date_of(a(3)) {
                    x = x.with_date(d);
                }
                Outcome::Env(x.into())
            }
            "malform" => {
                let e = reg(regs, a(0))?;
                let kind = a(1).as_str().ok_or("kind")?;
                let drop_pred = |e: &Envelope, kv: u64| -> Envelope {
                    let mut x = e.clone();
                    for asn in e.assertions_with_predicate(KnownValue::new(kv)) {
                        x = x.remove_assertion(asn);
                    }
                    x
                };
                let raw = |bytes: Vec<u8>| Envelope::new(dcbor::CBOR::try_from_data(bytes).unwrap());
                Outcome::Env(match kind {
                    "drop_body" => drop_pred(e, 100),
                    "second_body" => e.add_assertion(known_values::BODY, raw(self.ctx.atom_cbor(&serde_json::json!(["fn", "k", 2])).map_err(|e| e.0)?)),
                    "retag_subject" => {
                        // the subject IS a leaf holding an event id (#6.40026), not: contains one somewhere
                        let is_ev = e.subject().as_leaf().map(|c| c.to_cbor_data().starts_with(&[0xd9, 0x9c, 0x5a])).unwrap_or(false);
                        let atom = if is_ev { serde_json::json!(["reqid", 1]) } else { serde_json::json!(["evid", 1]) };
                        e.replace_subject(raw(self.ctx.atom_cbor(&atom).map_err(|e| e.0)?))
                    }
                    "add_error" => e.add_assertion(known_values::ERROR, "x"),
                    "add_result" => e.add_assertion(known_values::RESULT, "x"),
                    "drop_result" => drop_pred(e, 101),
                    "drop_error" => drop_pred(e, 102),
                    "second_note" => e.add_assertion(known_values::NOTE, "n").add_assertion(known_values::NOTE, "m"),
                    "note_not_string" => drop_pred(e, 4).add_assertion(known_values::NOTE, known_values::IS_A),
                    "date_not_date" => drop_pred(e, 16).add_assertion(known_values::DATE, "x"),
                    "subject_other_kv" => e.replace_subject(raw(self.ctx.atom_cbor(&serde_json::json!(["respunknown", 103])).map_err(|e| e.0)?)),
                    "drop_content" => drop_pred(e, 108),
                    "second_content" => e.add_assertion(known_values::CONTENT, "x"),
                    "salted_body" => {
                        let bodies = e.assertions_with_predicate(known_values::BODY);
                        match bodies.first() {
                            Some(b) => drop_pred(e, 100).add_assertion_envelope_salted(b.clone(), true).map_err(|e| e.to_string())?,
                            None => e.clone(),
                        }
                    }
                    _ => return Err(format!("malform kind {}", kind)),
                })
            }
            "decode_wire" => {
                let bytes = self.ctx.wire(a(0)).map_err(|e| e.0)?;
                // structural mutations must be rejected by the *envelope* decoder: unless the mutation is a
                // CBOR-level quirk the evaluated bytes have to be well-formed dCBOR (else an expected error
                // would be met for the wrong reason)
                if !a(0).to_string().contains("\"quirk\"") && dcbor::CBOR::try_from_data(&bytes).is_err() {
                    return Err(format!("evaluator produced malformed CBOR for {}", a(0)));
                }
                match var % 2 {
                    0 => res(Envelope::try_from_cbor_data(bytes)),
                    _ => match dcbor::CBOR::try_from_data(&bytes) {
                        Ok(c) => res(Envelope::try_from_cbor(c)),
                        Err(e) => Outcome::Err(format!("other:{}", e)),
                    },
                }
            }
            "encode_decode" => {
                let e = reg(regs, a(0))?;
                match var % 3 {
                    0 => {
                        let data = e.tagged_cbor().to_cbor_data();
                        res(Envelope::try_from_cbor_data(data))
                    }
                    1 => {
                        let cbor: dcbor::CBOR = e.clone().into();
                        res(Envelope::try_from_cbor(cbor))
                    }
                    _ => {
                        let ur = e.ur_string();
                        res(Envelope::from_ur_string(ur))
                    }
                }
            }
            o if o.starts_with("obs_") => match crate::obs::run_obs(o, step, regs, self.ctx, self.keys, var)? {
                Some(v) => Outcome::Obs(v),
                None => Outcome::Unsupported(format!("unknown observation {}", o)),
            },
            _ => Outcome::Unsupported(format!("unknown op {}", op)),
        })
    }

    /// Execute under catch_unwind; a panic is data.
    pub fn exec(&mut self, step: &Value, regs: &Regs) -> Outcome {
        let r = catch_unwind(AssertUnwindSafe(|| self.run(step, regs)));
        match r {
            Ok(Ok(o)) => o,
            Ok(Err(e)) => Outcome::Unsupported(e),
            Err(p) => {
                let msg = if let Some(s) = p.downcast_ref::<&str>() {
                    s.to_string()
                } else if let Some(s) = p.downcast_ref::<String>() {
                    s.clone()
                } else {
                    "panic".to_string()
                };
                Outcome::Panic(msg)
            }
        }
    }
}

pub fn date_of(v: &Value) -> Option<dcbor::Date> {
    match v.as_str().unwrap_or("") {
        "int" => Some(dcbor::Date::from_timestamp(1_600_000_000.0)),
        "frac" => Some(dcbor::Date::from_timestamp(1.5)),
        "neg" => Some(dcbor::Date::from_timestamp(-172800.0)),
        _ => None,
    }
}

pub fn outcome_json(o: &Outcome) -> Value {
    match o {
        Outcome::Env(_) => json!(["ok", ""]),
        Outcome::Err(k) => json!(["err", k]),
        Outcome::Obs(v) => json!(["obs", v]),
        Outcome::Panic(m) => json!(["panic", m]),
        Outcome::Unsupported(m) => json!(["unsupported", m]),
    }
}
