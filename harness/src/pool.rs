//! Typed value pool: what an opaque atom <<"v", name>> of the specification is
//! instantiated with. Every entry names the *typed* constructor to call on the
//! library side and, independently, the dCBOR bytes the value must serialize to
//! (written with the harness' own CBOR writer).

use crate::cborw as w;
use bc_envelope::prelude::*;
use rand::seq::SliceRandom;
use rand::Rng;
use std::collections::{HashMap, HashSet};

#[derive(Clone, Debug, PartialEq)]
pub enum PV {
    Str(String),
    StrSlice(String),
    U8(u8),
    U16(u16),
    U32(u32),
    U64(u64),
    Usize(usize),
    I8(i8),
    I16(i16),
    I32(i32),
    I64(i64),
    /// value, expected bytes (dCBOR numeric reduction is spelled out per entry)
    F64(f64, Vec<u8>),
    F32(f32, Vec<u8>),
    Bool(bool),
    Null,
    Bytes(Vec<u8>),
    /// seconds since epoch (integral or fractional), expected bytes
    Date(f64, Vec<u8>),
    VecU64(Vec<u64>),
    VecStr(Vec<String>),
    /// unordered: built through HashMap / dcbor::Map in a shuffled insertion order
    HashMapSU(Vec<(String, u64)>),
    DMapUS(Vec<(u64, String)>),
    /// unordered: built through HashSet / dcbor::Set in a shuffled insertion order
    HashSetU(Vec<u64>),
    DSetS(Vec<String>),
    /// CBOR tagged value (tag, inner)
    Tagged(u64, Box<PV>),
    /// a bc-components Digest used as a leaf value
    DigestLeaf([u8; 32]),
    /// a leaf holding the tagged CBOR of an envelope (embedded envelope as data)
    EmbeddedEnvelope(String),
    /// raw CBOR item given by its bytes (must be valid dCBOR)
    Raw(Vec<u8>),
}

fn shuffled<T: Clone>(v: &[T]) -> Vec<T> {
    let mut x = v.to_vec();
    x.shuffle(&mut rand::thread_rng());
    x
}

impl PV {
    /// The dCBOR bytes this value must encode to, computed without the library.
    pub fn expected_cbor(&self) -> Vec<u8> {
        match self {
            PV::Str(s) | PV::StrSlice(s) => w::text(s),
            PV::U8(n) => w::uint(*n as u64),
            PV::U16(n) => w::uint(*n as u64),
            PV::U32(n) => w::uint(*n as u64),
            PV::U64(n) => w::uint(*n),
            PV::Usize(n) => w::uint(*n as u64),
            PV::I8(n) => w::int(*n as i64),
            PV::I16(n) => w::int(*n as i64),
            PV::I32(n) => w::int(*n as i64),
            PV::I64(n) => w::int(*n),
            PV::F64(_, b) | PV::F32(_, b) | PV::Date(_, b) => b.clone(),
            PV::Bool(b) => w::simple(if *b { 21 } else { 20 }),
            PV::Null => w::simple(22),
            PV::Bytes(b) => w::bytes(b),
            PV::VecU64(v) => w::array(&v.iter().map(|n| w::uint(*n)).collect::<Vec<_>>()),
            PV::VecStr(v) => w::array(&v.iter().map(|s| w::text(s)).collect::<Vec<_>>()),
            PV::HashMapSU(v) => w::map_sorted(
                &v.iter().map(|(k, n)| (w::text(k), w::uint(*n))).collect::<Vec<_>>(),
            ),
            PV::DMapUS(v) => w::map_sorted(
                &v.iter().map(|(k, s)| (w::uint(*k), w::text(s))).collect::<Vec<_>>(),
            ),
            PV::HashSetU(v) => {
                let mut items: Vec<Vec<u8>> = v.iter().map(|n| w::uint(*n)).collect();
                items.sort();
                w::array(&items)
            }
            PV::DSetS(v) => {
                let mut items: Vec<Vec<u8>> = v.iter().map(|s| w::text(s)).collect();
                items.sort();
                w::array(&items)
            }
            PV::Tagged(t, inner) => w::tag(*t, &inner.expected_cbor()),
            PV::DigestLeaf(d) => w::tag(40001, &w::bytes(d)),
            PV::EmbeddedEnvelope(s) => w::tag(200, &w::tag(201, &w::text(s))),
            PV::Raw(b) => b.clone(),
        }
    }

    /// Build the envelope through the typed constructor of the library.
    pub fn build(&self) -> Envelope {
        match self {
            PV::Str(s) => Envelope::new(s.clone()),
            PV::StrSlice(s) => Envelope::new(s.as_str()),
            PV::U8(n) => Envelope::new(*n),
            PV::U16(n) => Envelope::new(*n),
            PV::U32(n) => Envelope::new(*n),
            PV::U64(n) => Envelope::new(*n),
            PV::Usize(n) => Envelope::new(*n),
            PV::I8(n) => Envelope::new(*n),
            PV::I16(n) => Envelope::new(*n),
            PV::I32(n) => Envelope::new(*n),
            PV::I64(n) => Envelope::new(*n),
            PV::F64(f, _) => Envelope::new(*f),
            PV::F32(f, _) => Envelope::new(*f),
            PV::Bool(b) => {
                if rand::thread_rng().gen_bool(0.5) {
                    Envelope::new(*b)
                } else if *b {
                    Envelope::r#true()
                } else {
                    Envelope::r#false()
                }
            }
            PV::Null => {
                if rand::thread_rng().gen_bool(0.5) {
                    Envelope::null()
                } else {
                    Envelope::new_or_null(None::<String>)
                }
            }
            PV::Bytes(b) => Envelope::new(dcbor::ByteString::new(b.clone())),
            PV::Date(secs, _) => Envelope::new(dcbor::Date::from_timestamp(*secs)),
            PV::VecU64(v) => Envelope::new(v.clone()),
            PV::VecStr(v) => Envelope::new(v.clone()),
            PV::HashMapSU(v) => {
                if rand::thread_rng().gen_bool(0.5) {
                    let mut m: HashMap<String, u64> = HashMap::new();
                    for (k, n) in shuffled(v) {
                        m.insert(k, n);
                    }
                    Envelope::new(m)
                } else {
                    let mut m = dcbor::Map::new();
                    for (k, n) in shuffled(v) {
                        m.insert(k, n);
                    }
                    Envelope::new(m)
                }
            }
            PV::DMapUS(v) => {
                let mut m = dcbor::Map::new();
                for (k, s) in shuffled(v) {
                    m.insert(k, s);
                }
                Envelope::new(m)
            }
            PV::HashSetU(v) => {
                let mut s: HashSet<u64> = HashSet::new();
                for n in shuffled(v) {
                    s.insert(n);
                }
                Envelope::new(s)
            }
            PV::DSetS(v) => {
                let mut s = dcbor::Set::new();
                for x in shuffled(v) {
                    s.insert(x);
                }
                Envelope::new(s)
            }
            PV::Tagged(_, _) | PV::Raw(_) | PV::EmbeddedEnvelope(_) => {
                let cbor = dcbor::CBOR::try_from_data(self.expected_cbor()).expect("pool: valid dCBOR");
                Envelope::new(cbor)
            }
            PV::DigestLeaf(d) => Envelope::new(Digest::from_data(*d)),
        }
    }

    /// What tree_format prints for a leaf holding this value (envelope_summary.rs), for the
    /// kinds whose summary is defined there without reference to CBOR diagnostic notation.
    pub fn summary(&self, max_length: usize) -> Option<String> {
        match self {
            PV::Str(s) | PV::StrSlice(s) => {
                let t = if s.len() > max_length { format!("{}\u{2026}", s.chars().take(max_length).collect::<String>()) } else { s.clone() };
                Some(format!("\"{}\"", t.replace('\n', "\\n")))
            }
            PV::U8(n) => Some(n.to_string()),
            PV::U16(n) => Some(n.to_string()),
            PV::U32(n) => Some(n.to_string()),
            PV::U64(n) => Some(n.to_string()),
            PV::Usize(n) => Some(n.to_string()),
            PV::I8(n) => Some(n.to_string()),
            PV::I16(n) => Some(n.to_string()),
            PV::I32(n) => Some(n.to_string()),
            PV::I64(n) => Some(n.to_string()),
            PV::Bool(b) => Some(b.to_string()),
            PV::Null => Some("null".to_string()),
            PV::Bytes(b) => Some(format!("Bytes({})", b.len())),
            _ => None,
        }
    }

    pub fn kind(&self) -> &'static str {
        match self {
            PV::Str(_) => "String",
            PV::StrSlice(_) => "&str",
            PV::U8(_) => "u8",
            PV::U16(_) => "u16",
            PV::U32(_) => "u32",
            PV::U64(_) => "u64",
            PV::Usize(_) => "usize",
            PV::I8(_) => "i8",
            PV::I16(_) => "i16",
            PV::I32(_) => "i32",
            PV::I64(_) => "i64",
            PV::F64(..) => "f64",
            PV::F32(..) => "f32",
            PV::Bool(_) => "bool",
            PV::Null => "null",
            PV::Bytes(_) => "ByteString",
            PV::Date(..) => "Date",
            PV::VecU64(_) => "Vec<u64>",
            PV::VecStr(_) => "Vec<String>",
            PV::HashMapSU(_) => "HashMap|Map",
            PV::DMapUS(_) => "Map",
            PV::HashSetU(_) => "HashSet",
            PV::DSetS(_) => "Set",
            PV::Tagged(..) => "tagged",
            PV::DigestLeaf(_) => "Digest",
            PV::EmbeddedEnvelope(_) => "embedded-envelope",
            PV::Raw(_) => "raw",
        }
    }
}

impl EnvelopeEncodable for PV {
    fn into_envelope(self) -> Envelope {
        self.build()
    }
}

/// The pool. Entries are pairwise distinct as dCBOR (checked at start-up), so an
/// injective choice of entries gives an injective atom -> bytes map.
pub fn pool() -> Vec<PV> {
    use PV::*;
    let s = |x: &str| x.to_string();
    vec![
        Str(s("Alice")),
        Str(s("Bob")),
        StrSlice(s("knows")),
        // (the empty string is a FIXED atom of the specification - conformsTo "" and the empty-text shapes -
        // and therefore not a pool value: a pool value must never coincide with a fixed atom)
        Str(s("h\u{e9}llo w\u{f6}rld \u{4e16}\u{754c}")), // NFC, non-ASCII
        Str(s("MARKER-7f3a9c-unique-payload")),
        Str("x".repeat(300)),
        U8(0),
        U8(23),
        U8(24),
        U16(256),
        U16(65535),
        U32(65536),
        U32(u32::MAX),
        U64(4294967296),
        U64(u64::MAX),
        Usize(1000),
        I8(-1),
        I8(-24),
        I8(-25),
        I16(-257),
        I32(-65537),
        I64(i64::MIN),
        I64(-4294967297),
        I64(42),
        F64(1.5, w::f16_bits(0x3e00)),
        F64(0.1, w::f64_bits(0x3fb999999999999a)),
        F64(7.0, w::uint(7)),              // reducible: integral floats encode as integers
        F64(-3.0, w::nint(-3)),
        F64(65504.0, w::uint(65504)),
        F64(1.0e300, w::f64_bits(1.0e300f64.to_bits())),
        F64(f64::INFINITY, w::f16_bits(0x7c00)),
        F64(f64::NAN, w::f16_bits(0x7e00)),
        F32(2.5, w::f16_bits(0x4100)),
        F32(100000.0, w::uint(100000)),
        F32(3.4028235e38, w::f32_bits(0x7f7fffff)),
        Bool(true),
        Bool(false),
        Null,
        Bytes(vec![]),
        Bytes(vec![0xde, 0xad, 0xbe, 0xef]),
        Bytes((0..=255u8).collect()),
        Date(1_700_000_000.0, w::tag(1, &w::uint(1_700_000_000))),
        Date(0.5, w::tag(1, &w::f16_bits(0x3800))),
        Date(-86400.0, w::tag(1, &w::nint(-86400))),
        VecU64(vec![3, 1, 2]),
        VecU64(vec![]),
        VecStr(vec![s("b"), s("a")]),
        HashMapSU(vec![(s("one"), 1), (s("two"), 2), (s("three"), 3), (s("z"), 26)]),
        DMapUS(vec![(10, s("ten")), (1, s("one")), (1000, s("k")), (24, s("t"))]),
        HashSetU(vec![5, 1, 300, 70000, 24, 2]),
        DSetS(vec![s("pear"), s("apple"), s("fig"), s("kiwi")]),
        Tagged(999, Box::new(Str(s("tagged")))),
        Tagged(32, Box::new(Str(s("https://example.com/")))),
        DigestLeaf([0x11; 32]),
        EmbeddedEnvelope(s("inner")),
        Raw(w::array(&[w::uint(1), w::array(&[w::text("n"), w::simple(22)]), w::map_sorted(&[(w::uint(1), w::uint(2))])])),
    ]
}

pub fn selfcheck() -> Result<(), String> {
    let p = pool();
    let mut seen: HashMap<Vec<u8>, usize> = HashMap::new();
    for (i, v) in p.iter().enumerate() {
        let b = v.expected_cbor();
        if let Some(j) = seen.insert(b, i) {
            return Err(format!("pool entries {} and {} have equal bytes", j, i));
        }
    }
    // a pool value must never coincide with a FIXED atom of the specification (the specification gives
    // distinct atoms distinct digests)
    let mut fixed: Vec<Vec<u8>> = ["", "n", "m", "x", "d", "v1", "v2", "c1", "c2", "T", "junk", "f", "p"].iter().map(|t| w::text(t)).collect();
    fixed.push(w::tag(1, &w::uint(1_600_000_000)));
    fixed.push(w::tag(1, &w::f16_bits(0x3e00)));
    fixed.push(w::tag(1, &w::nint(-172800)));
    for f in fixed {
        if let Some(j) = seen.get(&f) {
            return Err(format!("pool entry {} coincides with a fixed atom of the specification", j));
        }
    }
    Ok(())
}
