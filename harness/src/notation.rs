//! Layout of the specification's notation term (Queries!Notation) as envelope notation text.
//! The term says WHAT is shown (which assertions are written out, in which group, which counters,
//! where braces go); this module knows no envelope rule, only how items become text: the ordering of
//! sibling items and the flat / hierarchical line layout of the notation (format.rs:
//! EnvelopeFormatItem).  Leaf texts come from the value pool's own summaries where they are defined
//! there, otherwise from the library's rendering of that leaf alone (trusted for leaf text only).
use crate::eval::Ctx;
use bc_envelope::prelude::*;
use serde_json::Value;

#[derive(Clone, Debug, PartialEq, Eq)]
pub enum Item {
    Begin(String),
    End(String),
    Item(String),
    Separator,
    List(Vec<Item>),
}

impl Item {
    fn index(&self) -> u32 {
        match self {
            Item::Begin(_) => 1,
            Item::End(_) => 2,
            Item::Item(_) => 3,
            Item::Separator => 4,
            Item::List(_) => 5,
        }
    }
    fn flatten(&self) -> Vec<Item> {
        match self {
            Item::List(items) => items.iter().flat_map(|i| i.flatten()).collect(),
            _ => vec![self.clone()],
        }
    }
}

impl PartialOrd for Item {
    fn partial_cmp(&self, other: &Self) -> Option<std::cmp::Ordering> {
        Some(self.cmp(other))
    }
}
impl Ord for Item {
    fn cmp(&self, other: &Self) -> std::cmp::Ordering {
        use std::cmp::Ordering::*;
        match self.index().cmp(&other.index()) {
            Less => return Less,
            Greater => return Greater,
            Equal => {}
        }
        match (self, other) {
            (Item::Begin(l), Item::Begin(r)) | (Item::End(l), Item::End(r)) | (Item::Item(l), Item::Item(r)) => l.cmp(r),
            (Item::List(l), Item::List(r)) => l.cmp(r),
            _ => Equal,
        }
    }
}

fn tag_of(v: &Value) -> &str {
    v.get(0).and_then(|x| x.as_str()).unwrap_or("")
}

fn kv_name(n: u64) -> Option<&'static str> {
    Some(match n {
        1 => "isA",
        3 => "signed",
        4 => "note",
        5 => "hasRecipient",
        6 => "sskrShare",
        15 => "salt",
        _ => return None,
    })
}

/// None: the term mentions a leaf this module does not lay out (a leaf holding an embedded envelope).
pub fn build(term: &Value, ctx: &mut Ctx) -> Result<Option<Item>, String> {
    Ok(Some(match tag_of(term) {
        "word" => Item::Item(term[1].as_str().unwrap_or("").to_string()),
        "kv" => {
            let n = term[1].as_u64().ok_or("kv")?;
            match kv_name(n) {
                Some(s) => Item::Item(format!("'{}'", s)),
                None => Item::Item(Envelope::new(KnownValue::new(n)).format_flat()),
            }
        }
        "leaf" => {
            let atom = &term[1];
            let own = match tag_of(atom) {
                "v" => ctx.atom(atom[1].as_str().unwrap_or("")).and_then(|p| p.summary(usize::MAX)),
                "str" => Some(format!("\"{}\"", atom[1].as_str().unwrap_or(""))),
                _ => None,
            };
            match own {
                Some(s) => Item::Item(s),
                None => {
                    let bytes = ctx.atom_cbor(atom).map_err(|e| e.0)?;
                    let cbor = dcbor::CBOR::try_from_data(&bytes).map_err(|e| format!("leaf cbor: {}", e))?;
                    if let dcbor::CBORCase::Tagged(t, _) = cbor.as_case() {
                        if t.value() == 200 {
                            return Ok(None);
                        }
                    }
                    Item::Item(Envelope::new(cbor).format_flat())
                }
            }
        }
        "braces" => match build(&term[1], ctx)? {
            Some(inner) => Item::List(vec![Item::Begin("{".into()), inner, Item::End("}".into())]),
            None => return Ok(None),
        },
        "pair" => {
            let (p, o) = (build(&term[1], ctx)?, build(&term[2], ctx)?);
            match (p, o) {
                (Some(p), Some(o)) => Item::List(vec![p, Item::Item(": ".into()), o]),
                _ => return Ok(None),
            }
        }
        "node" => {
            let subject = match build(&term[1], ctx)? {
                Some(s) => s,
                None => return Ok(None),
            };
            let braces = term[2].as_bool().ok_or("braces")?;
            let mut groups: Vec<Vec<Vec<Item>>> = vec![];
            for g in [&term[3], &term[4]] {
                // members arrive in no particular order: start, like the library, from digest order
                let mut members: Vec<(Vec<u8>, Item)> = vec![];
                for m in g.as_array().ok_or("group")? {
                    let d = ctx.digest(&m[0]).map_err(|e| e.0)?;
                    match build(&m[1], ctx)? {
                        Some(it) => members.push((d.to_vec(), it)),
                        None => return Ok(None),
                    }
                }
                members.sort_by(|a, b| a.0.cmp(&b.0));
                let mut items: Vec<Vec<Item>> = members.into_iter().map(|(_, it)| vec![it]).collect();
                items.sort();
                groups.push(items);
            }
            let mut assertion_items: Vec<Vec<Item>> = groups.concat();
            for (i, word) in [(5, "COMPRESSED"), (6, "ELIDED"), (7, "ENCRYPTED")] {
                let n = term[i].as_u64().ok_or("count")?;
                if n > 1 {
                    assertion_items.push(vec![Item::Item(format!("{} ({})", word, n))]);
                } else if n > 0 {
                    assertion_items.push(vec![Item::Item(word.to_string())]);
                }
            }
            let mut items = vec![];
            if braces {
                items.push(Item::Begin("{".into()));
            }
            items.push(subject);
            if braces {
                items.push(Item::End("}".into()));
            }
            items.push(Item::Begin("[".into()));
            for (i, a) in assertion_items.into_iter().enumerate() {
                if i > 0 {
                    items.push(Item::Separator);
                }
                items.extend(a);
            }
            items.push(Item::End("]".into()));
            Item::List(items)
        }
        other => return Err(format!("notation term {}", other)),
    }))
}

pub fn flat(item: &Item) -> String {
    let mut line = String::new();
    for it in item.flatten() {
        match it {
            Item::Begin(s) | Item::End(s) => {
                if !line.ends_with(' ') {
                    line += " ";
                }
                line += &s;
                line += " ";
            }
            Item::Item(s) => line += &s,
            Item::Separator => line = line.trim_end().to_string() + ", ",
            Item::List(_) => unreachable!(),
        }
    }
    line.trim().to_string()
}

fn nicen(items: &[Item]) -> Vec<Item> {
    let mut out: Vec<Item> = vec![];
    let mut i = 0;
    while i < items.len() {
        if let (Item::End(e), Some(Item::Begin(b))) = (&items[i], items.get(i + 1)) {
            out.push(Item::End(format!("{} {}", e, b)));
            out.push(Item::Begin(String::new()));
            i += 2;
        } else {
            out.push(items[i].clone());
            i += 1;
        }
    }
    out
}

pub fn hier(item: &Item) -> String {
    let indent = |level: usize| " ".repeat(level * 4);
    let mut lines: Vec<String> = vec![];
    let mut level: usize = 0;
    let mut current = String::new();
    for it in nicen(&item.flatten()) {
        match it {
            Item::Begin(d) => {
                if !d.is_empty() {
                    let c = if current.is_empty() {
                        d
                    } else if current.ends_with(' ') {
                        current.clone() + &d
                    } else {
                        current.clone() + " " + &d
                    };
                    lines.push(indent(level) + &c + "\n");
                }
                level += 1;
                current.clear();
            }
            Item::End(d) => {
                if !current.is_empty() {
                    lines.push(indent(level) + &current + "\n");
                    current.clear();
                }
                level = level.saturating_sub(1);
                lines.push(indent(level) + &d + "\n");
            }
            Item::Item(s) => current += &s,
            Item::Separator => {
                if !current.is_empty() {
                    lines.push(indent(level) + &current + "\n");
                    current.clear();
                }
            }
            Item::List(_) => unreachable!(),
        }
    }
    if !current.is_empty() {
        lines.push(current);
    }
    lines.join("").trim().to_string()
}
