//! Observation steps: run the query on the real envelope, and compare the answer
//! with the specification's answer term.

use crate::eval::{sha256, Ctx};
use crate::ops::{err_kind, simple, Regs};
use bc_components::{Compressed, DigestProvider, EncryptedMessage};
use bc_envelope::prelude::*;
use serde_json::{json, Map, Value};
use std::cell::RefCell;

fn tag_of(v: &Value) -> &str {
    v.get(0).and_then(|x| x.as_str()).unwrap_or("")
}
fn hx(d: &[u8]) -> String {
    hex::encode(d)
}
fn reg<'a>(regs: &'a Regs, v: &Value) -> Result<&'a Envelope, String> {
    let i = v.as_u64().ok_or(format!("register index {}", v))? as usize;
    regs.get(i - 1).and_then(|x| x.as_ref()).ok_or(format!("register {} empty", i))
}
fn dhex(e: &Envelope) -> String {
    hx(e.digest().data())
}
fn res_digest(r: anyhow::Result<Envelope>) -> Value {
    match r {
        Ok(e) => json!(["ok", dhex(&e)]),
        Err(e) => json!(["err", err_kind(&e)]),
    }
}

/// Execute an observation op; returns the raw answer.
pub fn run_obs(op: &str, step: &Value, regs: &Regs, ctx: &mut Ctx, keys: &crate::project::Keys, var: u64) -> Result<Option<Value>, String> {
    let a = |i: usize| &step[i + 2];
    Ok(Some(match op {
        "obs_structure" => {
            let e = reg(regs, a(0))?;
            // the try_ / as_ / is_ forms of one question must agree with each other
            {
                let same = |name: &str, got: bool, want: bool| -> Result<(), String> {
                    if got == want { Ok(()) } else { Err(format!("#variant:{}# {} answers {} where the basic query says {}", name, name, got, want)) }
                };
                same("as_leaf", e.as_leaf().is_some(), e.is_leaf())?;
                same("try_leaf", e.try_leaf().is_ok(), e.is_leaf())?;
                same("as_known_value", e.as_known_value().is_some(), e.is_known_value())?;
                same("try_known_value", e.try_known_value().is_ok(), e.is_known_value())?;
                same("as_assertion", e.as_assertion().map(|x| x.digest() == e.digest()).unwrap_or(false), e.is_assertion())?;
                same("try_assertion", e.try_assertion().map(|x| x.digest() == e.digest()).unwrap_or(false), e.is_assertion())?;
                same("try_predicate", e.try_predicate().is_ok(), e.is_assertion())?;
                same("try_object", e.try_object().is_ok(), e.is_assertion())?;
                same("as_predicate", e.as_predicate().is_some(), e.is_assertion())?;
                let leaf_bytes = e.as_leaf().map(|c| c.to_cbor_data());
                let is_bstr = leaf_bytes.as_ref().map(|b| b[0] >> 5 == 2).unwrap_or(false);
                same("try_byte_string", e.try_byte_string().is_ok(), is_bstr)?;
                // extract_subject descends through nodes to the innermost subject
                let mut inner = e.clone();
                while inner.is_node() { inner = inner.subject(); }
                let sub = inner.as_leaf().map(|c| c.to_cbor_data());
                same("is_null", e.is_null(), sub.as_deref() == Some(&[0xf6]))?;
                same("is_true", e.is_true(), sub.as_deref() == Some(&[0xf5]))?;
                same("is_false", e.is_false(), sub.as_deref() == Some(&[0xf4]))?;
            }
            json!({
                "is_leaf": e.is_leaf(), "is_node": e.is_node(), "is_wrapped": e.is_wrapped(),
                "is_known_value": e.is_known_value(), "is_assertion": e.is_assertion(),
                "is_encrypted": e.is_encrypted(), "is_compressed": e.is_compressed(), "is_elided": e.is_elided(),
                "is_subject_assertion": e.is_subject_assertion(), "is_subject_encrypted": e.is_subject_encrypted(),
                "is_subject_compressed": e.is_subject_compressed(), "is_subject_elided": e.is_subject_elided(),
                "is_subject_obscured": e.is_subject_obscured(), "is_obscured": e.is_obscured(),
                "is_internal": e.is_internal(), "has_assertions": e.has_assertions(),
                "n_assertions": e.assertions().len(), "elements_count": e.elements_count(),
                "digest": dhex(e), "subject_digest": dhex(&e.subject()),
            })
        }
        "obs_walk" => {
            let e = reg(regs, a(0))?;
            let hide = a(1).as_bool().ok_or("hide")?;
            let out: RefCell<Vec<Value>> = RefCell::new(vec![]);
            let visitor = |x: Envelope, level: usize, edge: EdgeType, parent: Option<String>| -> Option<String> {
                let d = dhex(&x);
                out.borrow_mut().push(json!([d, level, format!("{:?}", edge), parent.unwrap_or_else(|| "noparent".into())]));
                Some(d)
            };
            e.walk(hide, &visitor);
            Value::Array(out.into_inner())
        }
        "obs_format" => {
            let e = reg(regs, a(0))?;
            let f1 = e.format();
            let flat = e.format_flat();
            let diag = e.diagnostic();
            let diag_a = e.diagnostic_annotated();
            let hexs = e.hex();
            let ur = e.ur_string();
            let tree = e.tree_format(false);
            if f1 != e.format() || flat != e.format_flat() || tree != e.tree_format(false) {
                return Err("#variant:format# formatting the same envelope twice gives different text".into());
            }
            if flat.contains('\n') {
                return Err("#variant:format# format_flat contains a line break".into());
            }
            // hex() is an annotated dump: its hex digits, in order, are the encoding
            let digits: String = hexs.lines().map(|l| l.split('#').next().unwrap_or("")).collect::<String>().chars().filter(|c| c.is_ascii_hexdigit()).collect();
            // (a text string with line breaks continues its comment on the following lines: such dumps are
            // compared through the plain form only)
            let every_line_commented = hexs.lines().all(|l| l.contains('#'));
            if e.hex_opt(false, None) != hx(&e.tagged_cbor().to_cbor_data()) {
                return Err("#variant:format# hex_opt(false) is not the encoding".into());
            }
            if every_line_commented && digits != hx(&e.tagged_cbor().to_cbor_data()) {
                return Err("#variant:format# the hex digits of hex() are not the encoding".into());
            }
            let back = Envelope::from_ur_string(&ur).map_err(|x| format!("UR does not parse back: {}", x))?;
            if !back.is_identical_to(e) {
                return Err("#variant:format# UR round trip is not identical".into());
            }
            if diag.is_empty() || diag_a.is_empty() {
                return Err("#variant:format# empty diagnostic notation".into());
            }
            // markers of obscured elements in the tree rendering (one line per element)
            let count = |w: &str| tree.lines().filter(|l| l.trim_end().ends_with(w)).count();
            json!({"elided": count("ELIDED"), "encrypted": count("ENCRYPTED"), "compressed": count("COMPRESSED"), "elements": tree.lines().count(),
                   "flat": flat, "hier": f1})
        }
        "obs_tree_format" => {
            let e = reg(regs, a(0))?;
            let hide = a(1).as_bool().ok_or("hide")?;
            let mut target = std::collections::HashSet::new();
            for d in a(2).as_array().cloned().unwrap_or_default() {
                target.insert(Digest::from_data(ctx.digest(&d).map_err(|e| e.0)?));
            }
            let text = if target.is_empty() {
                if var % 2 == 0 { e.tree_format(hide) } else { bc_envelope::with_format_context!(|c| e.tree_format_opt(hide, Some(c))) }
            } else if var % 2 == 0 {
                e.tree_format_with_target(hide, &target)
            } else {
                bc_envelope::with_format_context!(|c| e.tree_format_with_target_opt(hide, &target, Some(c)))
            };
            json!({"hide": hide, "lines": text.split('\n').collect::<Vec<_>>()})
        }
        "obs_digests" => {
            let e = reg(regs, a(0))?;
            let k = a(1).as_u64().ok_or("k")? as usize;
            let set = if k >= 999 {
                e.deep_digests()
            } else if k == 2 && var % 2 == 0 {
                e.shallow_digests()
            } else {
                e.digests(k)
            };
            let mut v: Vec<String> = set.iter().map(|d| hx(d.data())).collect();
            v.sort();
            json!(["set", v])
        }
        "obs_lookup" => {
            let e = reg(regs, a(0))?;
            let p = a(1);
            let pe: Envelope = match tag_of(p) {
                "reg" => reg(regs, &p[1])?.clone(),
                "dig" => {
                    // a predicate that occurs in the envelope, whatever its form (clear or obscured)
                    let d = ctx.digest(&p[1]).map_err(|e| e.0)?;
                    let found = e.assertions().into_iter().find_map(|x| {
                        x.subject().as_predicate().filter(|q| q.digest().data() == &d)
                    });
                    found.ok_or("lookup: predicate with that digest not present")?
                }
                "val" => {
                    // simple values go through the typed constructor; anything else is built
                    match simple(&p[1], ctx) {
                        Ok(s) => Envelope::new(s),
                        Err(_) => return Err(format!("lookup predicate {}", p)),
                    }
                }
                _ => return Err("lookup arg".into()),
            };
            let mk = || pe.clone();
            let mut m = Map::new();
            let set = |v: Vec<Envelope>| {
                let mut x: Vec<String> = v.iter().map(dhex).collect();
                x.sort();
                json!(["set", x])
            };
            m.insert("assertions_with_predicate".into(), set(e.assertions_with_predicate(mk())));
            m.insert("assertion_with_predicate".into(), res_digest(e.assertion_with_predicate(mk())));
            m.insert("object_for_predicate".into(), res_digest(e.object_for_predicate(mk())));
            m.insert("objects_for_predicate".into(), set(e.objects_for_predicate(mk())));
            m.insert(
                "optional_object_for_predicate".into(),
                match e.optional_object_for_predicate(mk()) {
                    Ok(Some(o)) => json!(["ok", dhex(&o)]),
                    Ok(None) => json!(["ok", ["nothing"]]),
                    Err(er) => json!(["err", err_kind(&er)]),
                },
            );
            // the optional assertion form must agree with the plain one
            let opt = match e.optional_assertion_with_predicate(mk()) {
                Ok(Some(o)) => json!(["ok", dhex(&o)]),
                Ok(None) => json!(["err", "NonexistentPredicate"]),
                Err(er) => json!(["err", err_kind(&er)]),
            };
            m.insert("optional_assertion_with_predicate".into(), opt);
            // the typed lookup variants must agree with the untyped ones (value or error, never another value)
            {
                let objs = e.objects_for_predicate(mk());
                // typed through TryFrom<Envelope> (String): all values or an error, never another value
                if let Ok(v) = e.try_objects_for_predicate::<String>(mk()) {
                    if v.len() != objs.len() {
                        return Err("#variant:typed_lookup# try_objects_for_predicate returned a different number of values".into());
                    }
                    for (x, y) in v.iter().zip(objs.iter()) {
                        let c: dcbor::CBOR = x.clone().into();
                        if y.as_leaf().map(|l| l.to_cbor_data()) != Some(c.to_cbor_data()) {
                            return Err("#variant:typed_lookup# try_objects_for_predicate::<String> returned another value".into());
                        }
                    }
                }
                let one = e.object_for_predicate(mk());
                if let Ok(x) = e.try_object_for_predicate::<String>(mk()) {
                    let c: dcbor::CBOR = x.into();
                    if one.as_ref().ok().and_then(|o| o.as_leaf()).map(|l| l.to_cbor_data()) != Some(c.to_cbor_data()) {
                        return Err("#variant:typed_lookup# try_object_for_predicate::<String> returned another value".into());
                    }
                }
                match (e.optional_object_for_predicate(mk()), e.try_optional_object_for_predicate::<String>(mk())) {
                    (Ok(None), Ok(Some(_))) | (Ok(None), Err(_)) => return Err("#variant:typed_lookup# try_optional_object_for_predicate disagrees on an absent predicate".into()),
                    (Ok(Some(o)), Ok(Some(x))) => {
                        let c: dcbor::CBOR = x.into();
                        if o.as_leaf().map(|l| l.to_cbor_data()) != Some(c.to_cbor_data()) {
                            return Err("#variant:typed_lookup# try_optional_object_for_predicate::<String> returned another value".into());
                        }
                    }
                    (Ok(Some(_)), Ok(None)) => return Err("#variant:typed_lookup# try_optional_object_for_predicate lost a present object".into()),
                    (Err(_), Ok(_)) => return Err("#variant:typed_lookup# try_optional_object_for_predicate ignored an ambiguous predicate".into()),
                    _ => {}
                }
                // the CBOR-typed optional form must agree too
                match (e.optional_object_for_predicate(mk()), e.extract_optional_object_for_predicate::<String>(mk())) {
                    (Ok(None), Ok(Some(_))) | (Ok(None), Err(_)) => return Err("#variant:typed_lookup# extract_optional_object_for_predicate disagrees on an absent predicate".into()),
                    (Ok(Some(o)), Ok(Some(x))) => {
                        let c: dcbor::CBOR = x.into();
                        if o.subject().as_leaf().map(|l| l.to_cbor_data()) != Some(c.to_cbor_data()) {
                            return Err("#variant:typed_lookup# extract_optional_object_for_predicate::<String> returned another value".into());
                        }
                    }
                    (Ok(Some(_)), Ok(None)) => return Err("#variant:typed_lookup# extract_optional_object_for_predicate lost a present object".into()),
                    (Err(_), Ok(_)) => return Err("#variant:typed_lookup# extract_optional_object_for_predicate ignored an ambiguous predicate".into()),
                    _ => {}
                }
                // extract_object / extract_predicate of each assertion: the stored leaf or an error, never another value
                for asn in e.assertions() {
                    for (part, got) in [(asn.try_object(), asn.extract_object::<String>()), (asn.try_predicate(), asn.extract_predicate::<String>())] {
                        match (part, got) {
                            (Err(_), Ok(_)) => return Err("#variant:typed_lookup# extract_object/extract_predicate answered on an element without that part".into()),
                            (Ok(o), Ok(x)) => {
                                let c: dcbor::CBOR = x.into();
                                if o.subject().as_leaf().map(|l| l.to_cbor_data()) != Some(c.to_cbor_data()) {
                                    return Err("#variant:typed_lookup# extract_object/extract_predicate::<String> returned another value".into());
                                }
                            }
                            _ => {}
                        }
                    }
                }
                // extraction of the object(s): a value whose re-encoding is the stored leaf, or an error
                if let Ok(o) = &one {
                    if let Some(c) = o.subject().as_leaf() {
                        if let Ok(sv) = e.extract_object_for_predicate::<String>(mk()) {
                            let cc: dcbor::CBOR = sv.into();
                            if cc.to_cbor_data() != c.to_cbor_data() {
                                return Err("#variant:typed_lookup# extract_object_for_predicate::<String> returned another value".into());
                            }
                        }
                        let with_default = e.extract_object_for_predicate_with_default::<String>(mk(), "~default~".to_string());
                        if let Ok(sv) = with_default {
                            if sv == "~default~" {
                                return Err("#variant:typed_lookup# extract_object_for_predicate_with_default returned the default for a present predicate".into());
                            }
                        }
                    }
                }
                if e.assertions_with_predicate(mk()).is_empty() {
                    match e.extract_object_for_predicate_with_default::<String>(mk(), "~default~".to_string()) {
                        Ok(sv) if sv == "~default~" => {}
                        other => return Err(format!("#variant:typed_lookup# extract_object_for_predicate_with_default on an absent predicate: {:?}", other.map_err(|x| x.to_string()))),
                    }
                }
                let many = e.extract_objects_for_predicate::<String>(mk());
                if let Ok(v) = many {
                    if v.len() != objs.len() {
                        return Err("#variant:typed_lookup# extract_objects_for_predicate returned a different number of values".into());
                    }
                }
            }
            Value::Object(m)
        }
        "obs_extract" => {
            let e = reg(regs, a(0))?;
            let ty = a(1).as_str().ok_or("ty")?;
            fn okc<T: Into<CBOR>>(r: anyhow::Result<T>) -> Value {
                match r {
                    Ok(v) => {
                        let c: CBOR = v.into();
                        json!(["ok", {"cbor": hx(&c.to_cbor_data())}])
                    }
                    Err(e) => json!(["err", err_kind(&e)]),
                }
            }
            match ty {
                "String" => okc(e.extract_subject::<String>()),
                "u64" => okc(e.extract_subject::<u64>()),
                "i64" => okc(e.extract_subject::<i64>()),
                "bool" => okc(e.extract_subject::<bool>()),
                "f64" => okc(e.extract_subject::<f64>()),
                "ByteString" => okc(e.extract_subject::<dcbor::ByteString>()),
                "Envelope" => match e.extract_subject::<Envelope>() {
                    Ok(v) => json!(["ok", {"cbor": hx(&v.tagged_cbor().to_cbor_data()), "digest": dhex(&v)}]),
                    Err(er) => json!(["err", err_kind(&er)]),
                },
                "Assertion" => match e.extract_subject::<bc_envelope::Assertion>() {
                    Ok(v) => {
                        let d = hx(v.digest().data());
                        let c: CBOR = v.into();
                        json!(["ok", {"cbor": hx(&c.to_cbor_data()), "digest": d}])
                    }
                    Err(er) => json!(["err", err_kind(&er)]),
                },
                "Digest" => match e.extract_subject::<Digest>() {
                    Ok(v) => {
                        let c: CBOR = v.clone().into();
                        json!(["ok", {"cbor": hx(&c.to_cbor_data()), "digest": hx(v.data())}])
                    }
                    Err(er) => json!(["err", err_kind(&er)]),
                },
                "KnownValue" => match e.extract_subject::<KnownValue>() {
                    Ok(v) => {
                        let n = v.value();
                        let c: CBOR = v.into();
                        json!(["ok", {"cbor": hx(&c.to_cbor_data()), "kv": n}])
                    }
                    Err(er) => json!(["err", err_kind(&er)]),
                },
                "EncryptedMessage" => match e.extract_subject::<EncryptedMessage>() {
                    Ok(v) => {
                        let d = v.opt_digest().map(|d| hx(d.data()));
                        let c: CBOR = v.into();
                        json!(["ok", {"cbor": hx(&c.to_cbor_data()), "digest": d}])
                    }
                    Err(er) => json!(["err", err_kind(&er)]),
                },
                "Compressed" => match e.extract_subject::<Compressed>() {
                    Ok(v) => {
                        let d = v.digest_ref_opt().map(|d| hx(d.data()));
                        let c: CBOR = v.into();
                        json!(["ok", {"cbor": hx(&c.to_cbor_data()), "digest": d}])
                    }
                    Err(er) => json!(["err", err_kind(&er)]),
                },
                _ => return Err(format!("extract type {}", ty)),
            }
        }

        "obs_verify" => {
            use bc_components::Verifier;
            let e = reg(regs, a(0))?;
            let mut held = vec![];
            for k in a(1).as_array().ok_or("keys")? {
                held.push(keys.signer(k.as_str().unwrap_or("")));
            }
            let pubs: Vec<&dyn Verifier> = held.iter().map(|h| &h.public as &dyn Verifier).collect();
            let th = a(2).as_u64().unwrap_or(0) as usize;
            let rb = |r: anyhow::Result<bool>| match r {
                Ok(b) => json!(["ok", b]),
                Err(er) => json!(["err", err_kind(&er)]),
            };
            let each: Vec<Value> = pubs.iter().map(|p| {
                let a1 = e.has_signature_from(*p);
                let a2 = e.verify_signature_from(*p);
                // the verify_ form must agree with the has_ form
                // the per-signature forms (is_verified_signature / verify_signature) must agree with each other and with the has_ form
                let objs = e.objects_for_predicate(known_values::SIGNED);
                let mut all_bare = true;
                let mut any_valid = false;
                let mut forms_disagree = false;
                for o in &objs {
                    match o.extract_subject::<bc_components::Signature>() {
                        Ok(sig) if !o.is_node() => {
                            let b = e.is_verified_signature(&sig, *p);
                            if b != e.verify_signature(&sig, *p).is_ok() { forms_disagree = true; }
                            if let Ok(r) = e.verify_signature(&sig, *p) { if r.digest() != e.digest() { forms_disagree = true; } }
                            any_valid |= b;
                        }
                        _ => all_bare = false,
                    }
                }
                if forms_disagree {
                    return json!(["err", "is_verified_signature and verify_signature disagree"]);
                }
                if any_valid && matches!(a1, Ok(false)) {
                    return json!(["err", "is_verified_signature accepts a signature that has_signature_from does not see"]);
                }
                if !any_valid && all_bare && matches!(a1, Ok(true)) {
                    return json!(["err", "has_signature_from accepts although is_verified_signature rejects every signature"]);
                }
                match (&a1, &a2) {
                    (Ok(true), Err(_)) | (Ok(false), Ok(_)) => json!(["err", "has_signature_from and verify_signature_from disagree"]),
                    _ => rb(a1),
                }
            }).collect();
            let unverified_is_false = |r: anyhow::Result<Envelope>| rb(r.map(|_| true).or_else(|er| {
                if er.downcast_ref::<bc_envelope::EnvelopeError>().map(|x| matches!(x, bc_envelope::EnvelopeError::UnverifiedSignature)).unwrap_or(false) { Ok(false) } else { Err(er) }
            }));
            let threshold = if th == 0 {
                match var % 3 {
                    0 => rb(e.has_signatures_from(&pubs)),
                    1 => rb(e.has_signatures_from_threshold(&pubs, None)),
                    _ => unverified_is_false(e.verify_signatures_from(&pubs)),
                }
            } else if var % 2 == 0 {
                rb(e.has_signatures_from_threshold(&pubs, Some(th)))
            } else {
                rb(e.verify_signatures_from_threshold(&pubs, Some(th)).map(|_| true).or_else(|er| {
                    if er.downcast_ref::<bc_envelope::EnvelopeError>().map(|x| matches!(x, bc_envelope::EnvelopeError::UnverifiedSignature)).unwrap_or(false) { Ok(false) } else { Err(er) }
                }))
            };
            let md_a = e.verify_signature_from_returning_metadata(pubs[0]);
            let md_b = e.has_signature_from_returning_metadata(pubs[0]);
            // the has_ form (None = no signature) must agree with the verify_ form
            let agree = match (&md_a, &md_b) {
                (Ok(x), Ok(Some(y))) => x.digest() == y.digest(),
                (Err(_), Ok(None)) | (Err(_), Err(_)) => true,
                _ => false,
            };
            let metadata = if !agree {
                json!(["ok", "verify_signature_from_returning_metadata and has_signature_from_returning_metadata disagree"])
            } else {
                match md_a {
                    Ok(m) => json!(["ok", dhex(&m)]),
                    Err(er) => json!(["err", err_kind(&er)]),
                }
            };
            // verify_returning_metadata = verify + the metadata above
            let verify = if var % 2 == 0 { res_digest(e.verify(pubs[0])) } else {
                match e.verify_returning_metadata(pubs[0]) {
                    Ok((inner, m)) => {
                        if metadata[0] == "ok" && metadata[1] != json!(dhex(&m)) {
                            json!(["ok", "verify_returning_metadata hands out other metadata than verify_signature_from_returning_metadata"])
                        } else { res_digest(Ok(inner)) }
                    }
                    Err(er) => res_digest(Err(er)),
                }
            };
            json!({"each": each, "threshold": threshold, "metadata": metadata, "verify": verify})
        }
        "obs_confirm" => {
            let root = reg(regs, a(0))?;
            let proof = reg(regs, a(1))?;
            let mut set = std::collections::HashSet::new();
            for d in a(2).as_array().ok_or("targets")? {
                set.insert(Digest::from_data(ctx.digest(d).map_err(|e| e.0)?));
            }
            // the verifier holds only the root digest
            let verifier = if var % 2 == 0 { root.elide() } else { root.clone() };
            let acc = if set.len() == 1 && var % 4 < 2 {
                verifier.confirm_contains_target(set.iter().next().unwrap(), proof)
            } else {
                verifier.confirm_contains_set(&set, proof)
            };
            json!({"accept": acc})
        }
        "obs_types" => {
            let e = reg(regs, a(0))?;
            let t = match simple(a(1), ctx) { Ok(s) => Envelope::new(s), Err(x) => return Err(x) };
            let mut tys: Vec<String> = e.types().iter().map(dhex).collect();
            tys.sort();
            let has = if let Some(kv) = t.as_known_value() {
                let h = e.has_type(kv);
                if h != e.check_type(kv).is_ok() {
                    return Err("#variant:types# has_type and check_type disagree".into());
                }
                h
            } else {
                let h = e.has_type_envelope(t.clone());
                if h != e.check_type_envelope(t.clone()).is_ok() {
                    return Err("#variant:types# has_type_envelope and check_type_envelope disagree".into());
                }
                h
            };
            json!({"types": ["set", tys], "has": has, "get": res_digest(e.get_type())})
        }
        "obs_container" => {
            use bc_envelope::Attachments;
            let e = reg(regs, a(0))?;
            match Attachments::try_from_envelope(e) {
                Err(er) => json!(["err", err_kind(&er)]),
                Ok(mut c) => {
                    // what the envelope query returns, the container must hold under its digest
                    let list = e.attachments().map_err(|x| x.to_string())?;
                    let mut ds: Vec<String> = vec![];
                    for x in &list {
                        let d = x.digest().into_owned();
                        match c.get(&d) {
                            Some(y) if y.is_identical_to(x) => {}
                            _ => return Err("#variant:attachments_container# container does not hold an attachment of the envelope under its digest".into()),
                        }
                        ds.push(dhex(x));
                    }
                    // re-adding the container to the bare subject reproduces the attachment assertions
                    let again = c.add_to_envelope(e.subject());
                    let back: std::collections::HashSet<String> = again.attachments().map_err(|x| x.to_string())?.iter().map(dhex).collect();
                    if back != ds.iter().cloned().collect() {
                        return Err("#variant:attachments_container# add_to_envelope does not reproduce the attachments".into());
                    }
                    for x in &list {
                        if c.remove(&x.digest().into_owned()).is_none() {
                            return Err("#variant:attachments_container# remove of a held attachment returned None".into());
                        }
                    }
                    if !c.is_empty() {
                        return Err("#variant:attachments_container# container holds more than the envelope's attachments".into());
                    }
                    ds.sort();
                    json!(["ok", ["set", ds]])
                }
            }
        }
        "obs_attachments" => {
            let e = reg(regs, a(0))?;
            let v = a(1).as_str().filter(|x| *x != "~none~");
            let c = a(2).as_str().filter(|x| *x != "~none~");
            let list = if v.is_none() && c.is_none() && var % 2 == 0 { e.attachments() } else { e.attachments_with_vendor_and_conforms_to(v, c) };
            let mut parts: Vec<Value> = vec![];
            let list_json = match &list {
                Ok(xs) => {
                    let mut d: Vec<String> = xs.iter().map(dhex).collect();
                    d.sort();
                    for x in xs {
                        let payload = x.attachment_payload().map(|p| dhex(&p)).unwrap_or_else(|e| format!("err:{}", e));
                        let vendor = x.attachment_vendor().unwrap_or_else(|e| format!("err:{}", e));
                        let conf = match x.attachment_conforms_to() { Ok(Some(s)) => s, Ok(None) => "~none~".to_string(), Err(e) => format!("err:{}", e) };
                        parts.push(json!([dhex(x), payload, vendor, conf]));
                    }
                    json!(["ok", ["set", d]])
                }
                Err(er) => json!(["err", err_kind(er)]),
            };
            let single = res_digest(e.attachment_with_vendor_and_conforms_to(v, c));
            json!({"list": list_json, "single": single, "parts": ["set", parts]})
        }

        "obs_parse" => {
            use bc_envelope::prelude::*;
            let e = reg(regs, a(0))?;
            let what = a(1).as_str().ok_or("what")?;
            let exp = a(2);
            // functions may be run-time values or compile-time constants: both must compare equal to a parsed one
            fn static_name(s: &str) -> &'static str {
                match s { "f" => "f", "1" => "1", "p" => "p", _ => "other" }
            }
            let expected: Option<Function> = match exp[0].as_str().unwrap_or("") {
                "k" => Some(if var % 2 == 0 { Function::new_known(exp[1].as_u64().unwrap(), None) } else { Function::new_with_static_name(exp[1].as_u64().unwrap(), "static") }),
                "n" => Some(if var % 2 == 0 { Function::new_named(exp[1].as_str().unwrap()) } else { Function::new_static_named(static_name(exp[1].as_str().unwrap())) }),
                _ => None,
            };
            let fn_json = |f: &Function| -> Value {
                let c: dcbor::CBOR = f.clone().into();
                json!({"cbor": hx(&c.to_cbor_data())})
            };
            let params_json = |x: &Envelope| -> Value {
                let mut v: Vec<Value> = vec![];
                for asn in x.assertions() {
                    let s = asn.subject();
                    if let (Some(p), Some(o)) = (s.as_predicate(), s.as_object()) {
                        if let Ok(param) = p.extract_subject::<Parameter>() {
                            let c: dcbor::CBOR = param.into();
                            v.push(json!([hx(&c.to_cbor_data()), dhex(&o)]));
                        }
                    }
                }
                json!(["set", v])
            };
            let date_json = |d: Option<&dcbor::Date>| -> Value {
                match d {
                    None => json!("~none~"),
                    Some(d) => {
                        let c: dcbor::CBOR = d.clone().into();
                        json!({"cbor": hx(&c.to_cbor_data())})
                    }
                }
            };
            // parse directly and through serialization: both must give equal values
            let bytes = e.tagged_cbor().to_cbor_data();
            let e2 = Envelope::try_from_cbor_data(bytes).map_err(|x| x.to_string())?;
            match what {
                "expression" => {
                    let r1 = Expression::try_from((e.clone(), expected.as_ref()));
                    let r2 = Expression::try_from((e2, expected.as_ref()));
                    match (r1, r2) {
                        (Ok(x), Ok(y)) => {
                            if x != y { return Err("#variant:parse_paths# expression parsed directly and through bytes differ".into()); }
                            json!(["ok", ["expression", fn_json(x.function()), params_json(x.expression_envelope())]])
                        }
                        (Err(er), Err(_)) => json!(["err", err_kind(&er)]),
                        _ => return Err("#variant:parse_paths# parse outcome differs between direct and through bytes".into()),
                    }
                }
                "request" => {
                    let r1 = Request::try_from((e.clone(), expected.as_ref()));
                    let r2 = Request::try_from((e2, expected.as_ref()));
                    match (r1, r2) {
                        (Ok(x), Ok(y)) => {
                            if x != y { return Err("#variant:parse_paths# request parsed directly and through bytes differ".into()); }
                            json!(["ok", ["request", fn_json(x.function()), params_json(x.expression_envelope()), x.id().data()[0], x.note(), date_json(x.date())]])
                        }
                        (Err(er), Err(_)) => json!(["err", err_kind(&er)]),
                        _ => return Err("#variant:parse_paths# parse outcome differs between direct and through bytes".into()),
                    }
                }
                "response" => {
                    let r1 = Response::try_from(e.clone());
                    let r2 = Response::try_from(e2);
                    match (r1, r2) {
                        (Ok(x), Ok(y)) => {
                            if x != y { return Err("#variant:parse_paths# response parsed directly and through bytes differ".into()); }
                            let (variant, id, payload) = if x.is_ok() {
                                ("success", x.id().map(|i| i.data()[0]).unwrap_or(0), dhex(x.result().map_err(|e| e.to_string())?))
                            } else {
                                (if x.id().is_some() { "failure" } else { "early" }, x.id().map(|i| i.data()[0]).unwrap_or(0), dhex(x.error().map_err(|e| e.to_string())?))
                            };
                            json!(["ok", ["response", variant, id, payload]])
                        }
                        (Err(er), Err(_)) => json!(["err", err_kind(&er)]),
                        _ => return Err("#variant:parse_paths# parse outcome differs between direct and through bytes".into()),
                    }
                }
                "event" => {
                    let r1 = Event::<Envelope>::try_from(e.clone());
                    let r2 = Event::<Envelope>::try_from(e2);
                    match (r1, r2) {
                        (Ok(x), Ok(y)) => {
                            if x != y { return Err("#variant:parse_paths# event parsed directly and through bytes differ".into()); }
                            json!(["ok", ["event", dhex(x.content()), x.id().data()[0], x.note(), date_json(x.date())]])
                        }
                        (Err(er), Err(_)) => json!(["err", err_kind(&er)]),
                        _ => return Err("#variant:parse_paths# parse outcome differs between direct and through bytes".into()),
                    }
                }
                _ => return Err("parse what".into()),
            }
        }
        "obs_compare" => {
            let x = reg(regs, a(0))?;
            let y = reg(regs, a(1))?;
            json!({
                "equivalent": x.is_equivalent_to(y),
                "identical": x.is_identical_to(y),
                "eq": x == y,
                "sd1": hx(x.structural_digest().data()),
                "sd2": hx(y.structural_digest().data()),
            })
        }
        _ => return Ok(None),
    }))
}

/// Replace every digest term inside a value by the hex of its evaluation.
pub fn resolve(v: &Value, ctx: &mut Ctx) -> Result<Value, String> {
    match v {
        Value::Array(a) => {
            let t = a.first().and_then(|x| x.as_str()).unwrap_or("");
            if (t == "H" && a.len() == 3) || (t == "X" && a.len() == 2) {
                return Ok(Value::String(hx(&ctx.digest(v).map_err(|e| e.0)?)));
            }
            let mut out = vec![];
            for x in a {
                out.push(resolve(x, ctx)?);
            }
            Ok(Value::Array(out))
        }
        Value::Object(m) => {
            let mut o = Map::new();
            for (k, x) in m {
                o.insert(k.clone(), resolve(x, ctx)?);
            }
            Ok(Value::Object(o))
        }
        _ => Ok(v.clone()),
    }
}

fn flatten_walk(t: &Value, ctx: &mut Ctx, out: &mut Vec<Value>) -> Result<(), String> {
    match tag_of(t) {
        "visit" => {
            let d = hx(&ctx.digest(&t[1]).map_err(|e| e.0)?);
            let parent = if tag_of(&t[4]) == "noparent" { "noparent".to_string() } else { hx(&ctx.digest(&t[4]).map_err(|e| e.0)?) };
            out.push(json!([d, t[2], t[3], parent]));
            for k in t[5].as_array().ok_or("kids")? {
                flatten_walk(k, ctx, out)?;
            }
        }
        "seq" => {
            for k in t[1].as_array().ok_or("seq")? {
                flatten_walk(k, ctx, out)?;
            }
        }
        "sorted" => {
            let mut items: Vec<([u8; 32], &Value)> = vec![];
            for it in t[1].as_array().ok_or("sorted")? {
                items.push((ctx.digest(&it[0]).map_err(|e| e.0)?, &it[1]));
            }
            items.sort_by(|a, b| a.0.cmp(&b.0));
            for (_, w) in items {
                flatten_walk(w, ctx, out)?;
            }
        }
        other => return Err(format!("walk term {}", other)),
    }
    Ok(())
}

/// Expected tree_format lines from a walk term: (level, digest, label, kind).
fn flatten_lines(t: &Value, ctx: &mut Ctx, out: &mut Vec<(u64, [u8; 32], String, Value)>) -> Result<(), String> {
    match tag_of(t) {
        "visit" => {
            let d = ctx.digest(&t[1]).map_err(|e| e.0)?;
            out.push((t[2].as_u64().unwrap_or(0), d, t[7].as_str().unwrap_or("").to_string(), t[6].clone()));
            for k in t[5].as_array().ok_or("kids")? {
                flatten_lines(k, ctx, out)?;
            }
        }
        "seq" => {
            for k in t[1].as_array().ok_or("seq")? {
                flatten_lines(k, ctx, out)?;
            }
        }
        "sorted" => {
            let mut items: Vec<([u8; 32], &Value)> = vec![];
            for it in t[1].as_array().ok_or("sorted")? {
                items.push((ctx.digest(&it[0]).map_err(|e| e.0)?, &it[1]));
            }
            items.sort_by(|a, b| a.0.cmp(&b.0));
            for (_, w) in items {
                flatten_lines(w, ctx, out)?;
            }
        }
        other => return Err(format!("walk term {}", other)),
    }
    Ok(())
}

fn flatten_image(t: &Value, ctx: &mut Ctx, out: &mut Vec<u8>) -> Result<(), String> {
    match tag_of(t) {
        "img" => {
            let disc = t[1].as_u64().unwrap_or(9);
            if disc != 9 {
                out.push(disc as u8);
            }
            out.extend_from_slice(&ctx.digest(&t[2]).map_err(|e| e.0)?);
            for k in t[3].as_array().ok_or("img kids")? {
                flatten_image(k, ctx, out)?;
            }
        }
        "sorted" => {
            let mut items: Vec<([u8; 32], &Value)> = vec![];
            for it in t[1].as_array().ok_or("sorted")? {
                items.push((ctx.digest(&it[0]).map_err(|e| e.0)?, &it[1]));
            }
            items.sort_by(|a, b| a.0.cmp(&b.0));
            for (_, w) in items {
                flatten_image(w, ctx, out)?;
            }
        }
        other => return Err(format!("image term {}", other)),
    }
    Ok(())
}

fn canon(v: &Value) -> Value {
    match v {
        Value::Array(a) => {
            if a.len() == 2 && a[0].as_str() == Some("set") {
                if let Some(items) = a[1].as_array() {
                    let mut c: Vec<Value> = items.iter().map(canon).collect();
                    c.sort_by_key(|x| x.to_string());
                    c.dedup();
                    return json!(["set", c]);
                }
            }
            Value::Array(a.iter().map(canon).collect())
        }
        Value::Object(m) => Value::Object(m.iter().map(|(k, x)| (k.clone(), canon(x))).collect()),
        _ => v.clone(),
    }
}

/// Compare the specification's answer with the real one. Ok(()) or a description.
pub fn compare_obs(op: &str, want: &Value, got: &Value, ctx: &mut Ctx, natural_ok: Option<bool>) -> Result<(), String> {
    match op {
        "obs_walk" => {
            let mut flat = vec![];
            flatten_walk(want, ctx, &mut flat)?;
            let w = Value::Array(flat);
            if &w != got {
                return Err(format!("walk differs: specification {} library {}", w, got));
            }
            Ok(())
        }
        "obs_format" => {
            for k in ["elided", "encrypted", "compressed", "elements"] {
                if want[k] != got[k] {
                    return Err(format!("{}: specification {} library {}", k, want[k], got[k]));
                }
            }
            // the notation is the layout of the specification's notation term
            if let Some(item) = crate::notation::build(&want["notation"], ctx)? {
                let (wf, wh) = (crate::notation::flat(&item), crate::notation::hier(&item));
                if got["flat"].as_str() != Some(&wf) {
                    return Err(format!("#notation-flat# format_flat gives {:?}, the specification's notation is {:?}", got["flat"].as_str().unwrap_or(""), wf));
                }
                if got["hier"].as_str() != Some(&wh) {
                    return Err(format!("#notation# format gives {:?}, the specification's notation is {:?}", got["hier"].as_str().unwrap_or(""), wh));
                }
            }
            Ok(())
        }
        "obs_tree_format" => {
            let mut exp = vec![];
            // <<"hl", walk, <<"set", digests>>>>: the lines of these elements carry a star
            let (walk, stars): (&Value, Option<Vec<[u8; 32]>>) = if tag_of(want) == "hl" {
                let mut v = vec![];
                for d in want[2][1].as_array().ok_or("stars")? {
                    v.push(ctx.digest(d).map_err(|e| e.0)?);
                }
                (&want[1], Some(v))
            } else { (want, None) };
            flatten_lines(walk, ctx, &mut exp)?;
            let hide = got["hide"].as_bool().unwrap_or(false);
            let lines = got["lines"].as_array().cloned().unwrap_or_default();
            if lines.len() != exp.len() {
                return Err(format!("tree_format has {} lines, the walk visits {} elements", lines.len(), exp.len()));
            }
            for (i, (l, (level, d, label, kind))) in lines.iter().zip(exp.iter()).enumerate() {
                let line = l.as_str().unwrap_or("");
                let indent = line.len() - line.trim_start_matches(' ').len();
                if indent as u64 != level * 4 {
                    return Err(format!("line {}: indentation {} for level {}: {:?}", i + 1, indent, level, line));
                }
                let mut rest = line.trim_start_matches(' ');
                let starred = rest.starts_with("* ");
                if starred {
                    rest = &rest[2..];
                }
                let want_star = stars.as_ref().map(|s| s.contains(d)).unwrap_or(false);
                if starred != want_star {
                    return Err(format!("#highlight# line {}: {} but the specification says {}: {:?}", i + 1, if starred { "highlighted" } else { "not highlighted" }, want_star, line));
                }
                if !hide {
                    let id = hx(&d[..4]);
                    match rest.strip_prefix(&id) {
                        Some(r) => rest = r.trim_start_matches(' '),
                        None => return Err(format!("line {}: short id {} expected: {:?}", i + 1, id, line)),
                    }
                }
                if !label.is_empty() {
                    match rest.strip_prefix(label.as_str()) {
                        Some(r) if r.starts_with(' ') => rest = r.trim_start_matches(' '),
                        _ => return Err(format!("line {}: edge label {:?} expected: {:?}", i + 1, label, line)),
                    }
                }
                match tag_of(kind) {
                    "word" => {
                        if rest != kind[1].as_str().unwrap_or("") {
                            return Err(format!("line {}: {:?} expected, got {:?}", i + 1, kind[1], rest));
                        }
                    }
                    "kv" => {
                        if !(rest.starts_with('\'') && rest.ends_with('\'') && rest.len() >= 3) {
                            return Err(format!("line {}: a quoted known value expected, got {:?}", i + 1, rest));
                        }
                        // unnamed known values print their number; a label word must not appear
                        if ["NODE", "WRAPPED", "ASSERTION", "ELIDED", "ENCRYPTED", "COMPRESSED"].contains(&rest) {
                            return Err(format!("line {}: known value printed as {:?}", i + 1, rest));
                        }
                    }
                    "leaf" => {
                        let atom = &kind[1];
                        let want_summary = if tag_of(atom) == "v" { ctx.atom(atom[1].as_str().unwrap_or("")).and_then(|p| p.summary(40)) } else if tag_of(atom) == "str" { Some(format!("\"{}\"", atom[1].as_str().unwrap_or(""))) } else { None };
                        match want_summary {
                            Some(s) => {
                                if rest != s {
                                    return Err(format!("line {}: leaf summary {:?} expected, got {:?}", i + 1, s, rest));
                                }
                            }
                            None => {
                                if rest.is_empty() || ["NODE", "WRAPPED", "ASSERTION", "ELIDED", "ENCRYPTED", "COMPRESSED"].contains(&rest) {
                                    return Err(format!("line {}: a leaf summary expected, got {:?}", i + 1, rest));
                                }
                            }
                        }
                    }
                    _ => return Err("kind".into()),
                }
            }
            Ok(())
        }
        "obs_compare" => {
            let mut i1 = vec![];
            flatten_image(&want["img1"], ctx, &mut i1)?;
            let mut i2 = vec![];
            flatten_image(&want["img2"], ctx, &mut i2)?;
            let (s1, s2) = (hx(&sha256(&i1)), hx(&sha256(&i2)));
            let mut errs = vec![];
            if got["equivalent"] != want["equivalent"] {
                errs.push(format!("is_equivalent_to={} expected {}", got["equivalent"], want["equivalent"]));
            }
            if got["identical"] != want["identical"] {
                errs.push(format!("is_identical_to={} expected {}", got["identical"], want["identical"]));
            }
            if got["eq"] != want["identical"] {
                errs.push(format!("=={} expected {}", got["eq"], want["identical"]));
            }
            if got["sd1"].as_str() != Some(&s1) || got["sd2"].as_str() != Some(&s2) {
                errs.push("structural_digest differs from the specified image".into());
            }
            if errs.is_empty() { Ok(()) } else { Err(errs.join("; ")) }
        }
        "obs_extract" => {
            match tag_of(want) {
                "leaf" => {
                    // the stored value or an error, never another value
                    let bytes = hx(&ctx.atom_cbor(&want[1]).map_err(|e| e.0)?);
                    match tag_of(got) {
                        "err" => {
                            if natural_ok == Some(true) {
                                return Err("extraction with the value's own type failed".into());
                            }
                            Ok(())
                        }
                        "ok" => {
                            if got[1]["cbor"].as_str() != Some(&bytes) {
                                let major = |h: &str| u8::from_str_radix(&h[0..2.min(h.len())], 16).map(|b| b >> 5).unwrap_or(9);
                                return Err(format!(
                                    "#another-value:stored-major{}:got-major{}# extracted another value: {} stored {}",
                                    major(&bytes), major(got[1]["cbor"].as_str().unwrap_or("")), got[1]["cbor"], bytes
                                ));
                            }
                            Ok(())
                        }
                        _ => Err(format!("answer {}", got)),
                    }
                }
                "ok" => {
                    if tag_of(got) != "ok" {
                        return Err(format!("expected a value, got {}", got));
                    }
                    let w = resolve(&want[1], ctx)?;
                    if w.is_string() {
                        if got[1]["digest"] != w {
                            return Err(format!("extracted digest {} expected {}", got[1]["digest"], w));
                        }
                    } else if got[1]["kv"] != w {
                        return Err(format!("extracted {} expected {}", got[1], w));
                    }
                    Ok(())
                }
                "err" => {
                    if tag_of(got) != "err" {
                        return Err(format!("expected an error, got {}", got));
                    }
                    Ok(())
                }
                _ => Err(format!("bad expected answer {}", want)),
            }
        }
        "obs_parse" => {
            // the specification's answer names functions / parameters / dates symbolically: evaluate them
            fn sym(v: &Value, ctx: &mut Ctx) -> Result<Value, String> {
                match v {
                    Value::Array(a) => {
                        let t = a.first().and_then(|x| x.as_str()).unwrap_or("");
                        if (t == "H" && a.len() == 3) || (t == "X" && a.len() == 2) {
                            return Ok(Value::String(hx(&ctx.digest(v).map_err(|e| e.0)?)));
                        }
                        Ok(Value::Array(a.iter().map(|x| sym(x, ctx)).collect::<Result<Vec<_>, _>>()?))
                    }
                    _ => Ok(v.clone()),
                }
            }
            if tag_of(want) == "err" {
                return if tag_of(got) == "err" { Ok(()) } else { Err(format!("#accepted-malformed# specification rejects ({}) but the library parsed {}", want[1], got)) };
            }
            if tag_of(got) != "ok" {
                return Err(format!("#rejected-wellformed# specification parses {} but the library answered {}", want[1], got));
            }
            let w = &want[1];
            let g = &got[1];
            let fcbor = |f: &Value, tagname: &str, ctx: &mut Ctx| -> Result<Value, String> {
                Ok(json!({"cbor": hx(&ctx.atom_cbor(&json!([tagname, f[0], f[1]])).map_err(|e| e.0)?)}))
            };
            let params = |p: &Value, ctx: &mut Ctx| -> Result<Value, String> {
                let mut v = vec![];
                for x in p[1].as_array().ok_or("params")? {
                    let pc = hx(&ctx.atom_cbor(&json!(["param", x[0][0], x[0][1]])).map_err(|e| e.0)?);
                    v.push(json!([pc, sym(&x[1], ctx)?]));
                }
                Ok(canon(&json!(["set", v])))
            };
            let date = |d: &Value, ctx: &mut Ctx| -> Result<Value, String> {
                if d.as_str() == Some("~none~") { return Ok(json!("~none~")); }
                Ok(json!({"cbor": hx(&ctx.atom_cbor(&json!(["date", d])).map_err(|e| e.0)?)}))
            };
            let expect: Value = match w[0].as_str().unwrap_or("") {
                "expression" => json!(["expression", fcbor(&w[1], "fn", ctx)?, params(&w[2], ctx)?]),
                "request" => json!(["request", fcbor(&w[1], "fn", ctx)?, params(&w[2], ctx)?, w[3], w[4], date(&w[5], ctx)?]),
                "response" => json!(["response", w[1], w[2], sym(&w[3], ctx)?]),
                "event" => json!(["event", sym(&w[1], ctx)?, w[2], w[3], date(&w[4], ctx)?]),
                _ => return Err("bad expected parse".into()),
            };
            let gg = canon(g);
            // a known function / parameter compares by number: the library may carry a name
            if canon(&expect) != gg {
                return Err(format!("parsed value differs: specification {} library {}", expect, gg));
            }
            Ok(())
        }
        "obs_confirm" => {
            if got["accept"] != want["accept"] {
                let tag = if want["produced"] == json!(true) {
                    if want["nested"] == json!(true) { "#own-proof-rejected:nested-targets# " } else { "#own-proof-rejected# " }
                } else if want["accept"] == json!(false) {
                    "#accepted-unsound# "
                } else {
                    "#rejected-valid# "
                };
                return Err(format!("{}verifier answered {} but the specification requires {}", tag, got["accept"], want["accept"]));
            }
            Ok(())
        }
        "obs_verify" => {
            let w = canon(&resolve(want, ctx)?);
            let mut errs: Vec<String> = vec![];
            let each_w = w["each"].as_array().cloned().unwrap_or_default();
            let each_g = got["each"].as_array().cloned().unwrap_or_default();
            let mut tag = String::new();
            for (i, (ew, eg)) in each_w.iter().zip(each_g.iter()).enumerate() {
                // no valid signature + a malformed 'signed' object: the property does not choose
                // between "false" and an error
                let ok = *eg == json!(["ok", ew]) || (*ew == json!(false) && tag_of(eg) == "err");
                if !ok {
                    if tag_of(eg) == "err" && tag.is_empty() {
                        tag = if *ew == json!(true) { "#err-despite-valid-signature# ".into() } else { "#err-instead-of-false# ".into() };
                    } else if tag.is_empty() {
                        tag = if *ew == json!(true) { "#valid-signature-not-recognised# ".into() } else { "#accepted-invalid-signature# ".into() };
                    }
                    errs.push(format!("key #{}: library {} specification {}", i + 1, eg, ew));
                }
            }
            let th_ok = got["threshold"] == json!(["ok", w["threshold"]]) || (w["threshold"] == json!(false) && tag_of(&got["threshold"]) == "err");
            if !th_ok {
                if tag.is_empty() { tag = "#threshold# ".into(); }
                errs.push(format!("threshold: library {} specification {}", got["threshold"], w["threshold"]));
            }
            // metadata handed out must be covered
            let allowed = w["metadata"][1].as_array().cloned().unwrap_or_default();
            match tag_of(&got["metadata"]) {
                "ok" => {
                    if !allowed.contains(&got["metadata"][1]) {
                        if tag.is_empty() { tag = "#uncovered-metadata# ".into(); }
                        errs.push(format!("metadata {} returned as verified but not covered by a signature of that key", got["metadata"][1]));
                    }
                }
                _ => {
                    if !allowed.is_empty() {
                        if tag.is_empty() { tag = "#metadata-missing# ".into(); }
                        errs.push(format!("no metadata returned ({}) although a valid signature exists", got["metadata"]));
                    }
                }
            }
            let vw = &w["verify"];
            let vg = &got["verify"];
            let same = if tag_of(vw) == "err" { tag_of(vg) == "err" } else { vw == vg };
            if !same {
                if tag.is_empty() { tag = "#verify# ".into(); }
                errs.push(format!("verify(): library {} specification {}", vg, vw));
            }
            if errs.is_empty() { Ok(()) } else { Err(format!("{}{}", tag, errs.join("; "))) }
        }
        "obs_lookup" => {
            let w = canon(&resolve(want, ctx)?);
            let g = canon(got);
            for (k, wv) in w.as_object().ok_or("lookup answer")? {
                let gv = &g[k];
                let same = if tag_of(wv) == "err" { tag_of(gv) == "err" && wv[1] == gv[1] } else { wv == gv };
                if !same {
                    return Err(format!("{}: specification {} library {}", k, wv, gv));
                }
            }
            if g["optional_assertion_with_predicate"] != g["assertion_with_predicate"] {
                return Err("optional_assertion_with_predicate disagrees with assertion_with_predicate".into());
            }
            Ok(())
        }
        _ => {
            // error kinds are not part of the properties: compare the class only
            fn strip(v: &Value) -> Value {
                match v {
                    Value::Array(a) if a.len() == 2 && a[0].as_str() == Some("err") => json!(["err"]),
                    Value::Array(a) => Value::Array(a.iter().map(strip).collect()),
                    Value::Object(m) => Value::Object(m.iter().map(|(k, x)| (k.clone(), strip(x))).collect()),
                    _ => v.clone(),
                }
            }
            let w = strip(&canon(&resolve(want, ctx)?));
            let g = strip(&canon(got));
            if w != g {
                return Err(format!("specification {} library {}", w, g));
            }
            Ok(())
        }
    }
}
