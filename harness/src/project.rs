//! Projection of a real envelope and its comparison with the annotated abstract
//! envelope the specification expects. Only `case()`, `digest()` and accessors
//! of bc-components values are read.

use crate::eval::{key_of, Ctx};
use bc_components::{Compressed, DigestProvider, EncryptedMessage, SymmetricKey};
use bc_envelope::base::envelope::EnvelopeCase;
use bc_envelope::prelude::*;
use serde_json::Value;
use std::collections::HashMap;

pub struct Keys {
    pub sym: HashMap<String, SymmetricKey>,
}

fn tag_of(v: &Value) -> &str {
    v.get(0).and_then(|x| x.as_str()).unwrap_or("")
}

pub fn case_name(e: &Envelope) -> &'static str {
    match e.case() {
        EnvelopeCase::Node { .. } => "node",
        EnvelopeCase::Leaf { .. } => "leaf",
        EnvelopeCase::Wrapped { .. } => "wrap",
        EnvelopeCase::Assertion(_) => "assn",
        EnvelopeCase::Elided(_) => "elided",
        EnvelopeCase::KnownValue { .. } => "kv",
        EnvelopeCase::Encrypted(_) => "enc",
        EnvelopeCase::Compressed(_) => "comp",
    }
}

/// Digest term carried by an annotated element.
pub fn ann_digest_term(exp: &Value) -> &Value {
    match tag_of(exp) {
        "leaf" | "kv" | "wrap" => &exp[2],
        "assn" | "node" => &exp[3],
        _ => &exp[1], // elided / enc / comp: declared digest
    }
}

fn hexs(b: &[u8]) -> String {
    hex::encode(b)
}

/// Compare; on mismatch return a description with the path.
pub fn check(exp: &Value, real: &Envelope, ctx: &mut Ctx, keys: &Keys, path: &str) -> Result<(), String> {
    let et = tag_of(exp);
    let rt = case_name(real);
    if et != rt {
        return Err(format!("{}: expected case {} but found {}", path, et, rt));
    }
    // digest held by the element
    let dterm = ann_digest_term(exp);
    let want = ctx.digest(dterm).map_err(|e| format!("{}: eval: {}", path, e.0))?;
    let got = real.digest().into_owned();
    if got.data() != &want {
        return Err(format!(
            "{}: digest of {} is {} but the specification gives {}",
            path, et, hexs(got.data()), hexs(&want)
        ));
    }
    match real.case() {
        EnvelopeCase::Leaf { cbor, .. } => {
            let wantb = ctx.atom_cbor(&exp[1]).map_err(|e| format!("{}: eval: {}", path, e.0))?;
            let gotb = cbor.to_cbor_data();
            if wantb != gotb {
                return Err(format!("{}: leaf bytes {} expected {}", path, hexs(&gotb), hexs(&wantb)));
            }
        }
        EnvelopeCase::KnownValue { value, .. } => {
            if Some(value.value()) != exp[1].as_u64() {
                return Err(format!("{}: known value {} expected {}", path, value.value(), exp[1]));
            }
        }
        EnvelopeCase::Assertion(a) => {
            check(&exp[1], &a.predicate(), ctx, keys, &format!("{}/p", path))?;
            check(&exp[2], &a.object(), ctx, keys, &format!("{}/o", path))?;
        }
        EnvelopeCase::Wrapped { envelope, .. } => {
            check(&exp[1], envelope, ctx, keys, &format!("{}/w", path))?;
        }
        EnvelopeCase::Node { subject, assertions, .. } => {
            check(&exp[1], subject, ctx, keys, &format!("{}/s", path))?;
            let want_as = exp[2].as_array().ok_or("node assertions")?;
            if want_as.len() != assertions.len() {
                return Err(format!(
                    "{}: node has {} assertion elements, expected {}",
                    path, assertions.len(), want_as.len()
                ));
            }
            // stored order must be strictly ascending by digest
            for i in 1..assertions.len() {
                if assertions[i - 1].digest().data() >= assertions[i].digest().data() {
                    return Err(format!("{}: stored assertions not strictly ascending at {}", path, i));
                }
            }
            for (i, wa) in want_as.iter().enumerate() {
                let d = ctx.digest(ann_digest_term(wa)).map_err(|e| format!("{}: eval: {}", path, e.0))?;
                match assertions.iter().find(|a| a.digest().data() == &d) {
                    Some(ra) => check(wa, ra, ctx, keys, &format!("{}/a{}", path, i))?,
                    None => {
                        return Err(format!("{}: expected assertion element with digest {} is missing", path, hexs(&d)))
                    }
                }
            }
        }
        EnvelopeCase::Elided(_) => {}
        EnvelopeCase::Encrypted(msg) => {
            check_encrypted(exp, msg, ctx, keys, path)?;
        }
        EnvelopeCase::Compressed(c) => {
            check_compressed(exp, c, ctx, keys, path)?;
        }
    }
    Ok(())
}

fn check_encrypted(exp: &Value, msg: &EncryptedMessage, ctx: &mut Ctx, keys: &Keys, path: &str) -> Result<(), String> {
    // <<"enc", D, key, nonce, Ann(plain), auth>>
    let id = format!("enc:{}", key_of(&exp[3]));
    let real_bytes = msg.untagged_cbor().to_cbor_data();
    if let Some(b) = ctx.bind.get(&id) {
        if *b != real_bytes {
            return Err(format!("{}: encrypted element {} changed its bytes", path, exp[3]));
        }
        return Ok(());
    }
    let kname = exp[2].as_str().unwrap_or("");
    let key = keys.sym.get(kname).ok_or(format!("{}: unknown key {}", path, kname))?;
    if exp[5].as_str() == Some("ok") {
        let plain = key
            .decrypt(msg)
            .map_err(|e| format!("{}: ciphertext does not open under {}: {}", path, kname, e))?;
        let inner = Envelope::try_from_cbor_data(plain.clone())
            .map_err(|e| format!("{}: plaintext is not an envelope: {}", path, e))?;
        check(&exp[4], &inner, ctx, keys, &format!("{}/plain", path))?;
        if inner.tagged_cbor().to_cbor_data() != plain {
            return Err(format!("{}: plaintext is not the canonical encoding of its envelope", path));
        }
    }
    ctx.bind.insert(id, real_bytes);
    Ok(())
}

fn check_compressed(exp: &Value, c: &Compressed, ctx: &mut Ctx, keys: &Keys, path: &str) -> Result<(), String> {
    // <<"comp", D, Ann(plain), state>>
    if exp[3].as_str() == Some("ok") {
        let plain = c.uncompress().map_err(|e| format!("{}: does not inflate: {}", path, e))?;
        let inner = Envelope::try_from_cbor_data(plain.clone())
            .map_err(|e| format!("{}: inflated payload is not an envelope: {}", path, e))?;
        check(&exp[2], &inner, ctx, keys, &format!("{}/plain", path))?;
        if inner.tagged_cbor().to_cbor_data() != plain {
            return Err(format!("{}: payload is not the canonical encoding of its envelope", path));
        }
    }
    Ok(())
}

/// A cheap fingerprint of a real envelope used for "source registers unchanged".
pub fn fingerprint(e: &Envelope) -> (Vec<u8>, Vec<u8>) {
    (e.tagged_cbor().to_cbor_data(), e.structural_digest().data().to_vec())
}
