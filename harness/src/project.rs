//! Projection of a real envelope and its comparison with the annotated abstract
//! envelope the specification expects. Only `case()`, `digest()` and accessors
//! of bc-components values are read.

use crate::eval::{key_of, Ctx};
use bc_components::{Compressed, DigestProvider, EncryptedMessage, SymmetricKey};
use bc_envelope::base::envelope::EnvelopeCase;
use bc_envelope::prelude::*;
use serde_json::Value;
use std::collections::HashMap;

pub struct SignerKey {
    pub private: bc_components::SigningPrivateKey,
    pub public: bc_components::SigningPublicKey,
    pub ssh: bool,
    pub scheme: String,
}
impl SignerKey {
    pub fn options(&self) -> Option<bc_components::SigningOptions> {
        if self.ssh {
            Some(bc_components::SigningOptions::Ssh { namespace: "verif".to_string(), hash_alg: ssh_key::HashAlg::Sha256 })
        } else {
            None
        }
    }
}
pub struct RecipientKey {
    pub private: bc_components::EncapsulationPrivateKey,
    pub public: bc_components::EncapsulationPublicKey,
    pub scheme: String,
}
#[derive(Default)]
struct KeysInner {
    sym: HashMap<String, SymmetricKey>,
    signers: HashMap<String, std::rc::Rc<SignerKey>>,
    recipients: HashMap<String, std::rc::Rc<RecipientKey>>,
}
/// Real key material for the symbolic key ids of a chain, created on first use.
pub struct Keys {
    inner: std::cell::RefCell<KeysInner>,
    pub salt: u64,
}

fn fnv(s: &str) -> u64 {
    let mut h: u64 = 0xcbf29ce484222325;
    for b in s.as_bytes() {
        h ^= *b as u64;
        h = h.wrapping_mul(0x100000001b3);
    }
    h
}

impl Keys {
    pub fn new(salt: u64) -> Self {
        Keys { inner: Default::default(), salt }
    }
    pub fn sym(&self, name: &str) -> SymmetricKey {
        self.inner.borrow_mut().sym.entry(name.to_string()).or_insert_with(SymmetricKey::new).clone()
    }
    pub fn signer(&self, name: &str) -> std::rc::Rc<SignerKey> {
        let salt = self.salt;
        self.inner
            .borrow_mut()
            .signers
            .entry(name.to_string())
            .or_insert_with(|| {
                use bc_components::SignatureScheme as S;
                // Extensions!DetSigner: s1 signs deterministically, every other signer with fresh randomness.
                // SSH-ECDSA is left out: about one signature in a few hundred fails to parse back from
                // its CBOR form ("length invalid", ssh-key 0.6.6 mpint encoding) - see DESIGN, finding D10
                let det = [(S::Ecdsa, "Ecdsa"), (S::Ed25519, "Ed25519"), (S::SshEd25519, "SshEd25519"), (S::Ed25519, "Ed25519"), (S::Ecdsa, "Ecdsa")];
                let rnd = [(S::Schnorr, "Schnorr"), (S::MLDSA44, "MLDSA44"), (S::Schnorr, "Schnorr")];
                let schemes: &[(S, &str)] = if name == "s1" { &det } else { &rnd };
                let (sch, nm) = &schemes[((salt ^ fnv(name)) % schemes.len() as u64) as usize];
                let (private, public) = sch.keypair_opt("verif@example");
                std::rc::Rc::new(SignerKey { private, public, ssh: nm.starts_with("Ssh"), scheme: nm.to_string() })
            })
            .clone()
    }
    pub fn recipient(&self, name: &str) -> std::rc::Rc<RecipientKey> {
        let salt = self.salt;
        self.inner
            .borrow_mut()
            .recipients
            .entry(name.to_string())
            .or_insert_with(|| {
                use bc_components::EncapsulationScheme as E;
                // every pair of schemes for (r1, r2) occurs over the chains, mixed ML-KEM levels included
                let schemes = [(E::X25519, "X25519"), (E::MLKEM512, "MLKEM512"), (E::MLKEM768, "MLKEM768")];
                let idx = match name {
                    "r1" => salt % 3,
                    "r2" => (salt / 3) % 3,
                    _ => ((salt / 9) ^ fnv(name)) % 3,
                };
                let (sch, nm) = &schemes[idx as usize];
                let (private, public) = sch.keypair();
                std::rc::Rc::new(RecipientKey { private, public, scheme: nm.to_string() })
            })
            .clone()
    }
    /// A symmetric key by name: caller-held keys k<n>, or content keys ck<n> learnt by opening a sealed message.
    pub fn sym_key(&self, name: &str, ctx: &Ctx) -> Option<SymmetricKey> {
        if name.starts_with("ck") {
            return ctx.bind.get(&format!("ck:{}", name)).and_then(|b| SymmetricKey::from_data_ref(b).ok());
        }
        Some(self.sym(name))
    }
    pub fn describe(&self) -> String {
        let i = self.inner.borrow();
        let mut v: Vec<String> = i.signers.iter().map(|(k, s)| format!("{}:{}", k, s.scheme)).collect();
        v.extend(i.recipients.iter().map(|(k, s)| format!("{}:{}", k, s.scheme)));
        v.sort();
        v.join(",")
    }
}

fn is_opaque_atom(atom: &Value) -> bool {
    matches!(tag_of(atom), "salt" | "sig" | "sealed" | "share")
}

/// Does the expected (annotated) element mention an opaque atom that is not bound yet?
pub fn has_unbound(exp: &Value, ctx: &Ctx) -> bool {
    match exp {
        Value::Array(a) => {
            if a.len() >= 2 && a[0].is_string() && is_opaque_atom(exp) {
                return !ctx.bind.contains_key(&key_of(exp));
            }
            a.iter().any(|x| has_unbound(x, ctx))
        }
        _ => false,
    }
}

/// First sight of an opaque leaf value: check what the specification says about it, then bind it.
fn bind_opaque(atom: &Value, cbor: &dcbor::CBOR, ctx: &mut Ctx, keys: &Keys, path: &str) -> Result<(), String> {
    use dcbor::prelude::*;
    let bytes = cbor.to_cbor_data();
    match tag_of(atom) {
        "salt" => {
            let s = bc_components::Salt::try_from(cbor.clone()).map_err(|e| format!("{}: not a Salt: {}", path, e))?;
            if s.len() < 8 {
                return Err(format!("{}: salt of {} bytes (minimum is 8)", path, s.len()));
            }
        }
        "sig" => {
            // <<"sig", call, k, signer, D>>
            let sig = bc_components::Signature::try_from(cbor.clone()).map_err(|e| format!("{}: not a Signature: {}", path, e))?;
            let who = atom[3].as_str().unwrap_or("");
            let sk = keys.signer(who);
            let msg = ctx.digest(&atom[4]).map_err(|e| format!("{}: eval: {}", path, e.0))?;
            use bc_components::Verifier;
            if !sk.public.verify(&sig, &msg) {
                return Err(format!("{}: signature does not verify under {} ({}) over the specified digest", path, who, sk.scheme));
            }
        }
        "sealed" => {
            // <<"sealed", call, k, recipient, ck>>
            let sm = bc_components::SealedMessage::try_from(cbor.clone()).map_err(|e| format!("{}: not a SealedMessage: {}", path, e))?;
            let who = atom[3].as_str().unwrap_or("");
            let rk = keys.recipient(who);
            // (never hand a key a sealed message of another scheme: the dependency's decapsulation panics on
            // another ML-KEM level - finding D13)
            if sm.encapsulation_scheme() != rk.private.encapsulation_scheme() {
                return Err(format!("{}: sealed message of another encapsulation scheme than {}'s key", path, who));
            }
            let plain = sm.decrypt(&rk.private).map_err(|e| format!("{}: sealed message does not open for {}: {}", path, who, e))?;
            let key = SymmetricKey::from_tagged_cbor_data(plain).map_err(|e| format!("{}: sealed payload is not a key: {}", path, e))?;
            let ck = atom[4].as_str().unwrap_or("");
            if !ck.starts_with("ck") {
                let k = keys.sym(ck);
                if k.data() != key.data() {
                    return Err(format!("{}: sealed message carries another key than {}", path, ck));
                }
            } else {
                let id = format!("ck:{}", ck);
                if let Some(b) = ctx.bind.get(&id) {
                    if b.as_slice() != key.data() {
                        return Err(format!("{}: recipients of one encryption got different content keys", path));
                    }
                } else {
                    ctx.bind.insert(id, key.data().to_vec());
                }
            }
        }
        "share" => {
            // <<"share", call, g, m, policy, ck>>
            let sh = bc_components::SSKRShare::try_from(cbor.clone()).map_err(|e| format!("{}: not an SSKRShare: {}", path, e))?;
            let (g, m) = (atom[2].as_u64().unwrap_or(0) as usize, atom[3].as_u64().unwrap_or(0) as usize);
            let pol = &atom[4];
            let groups = pol[1].as_array().ok_or("policy")?;
            let ok = sh.group_index() + 1 == g
                && sh.member_index() + 1 == m
                && sh.group_threshold() as u64 == pol[0].as_u64().unwrap_or(0)
                && sh.group_count() == groups.len()
                && sh.member_threshold() as u64 == groups[g - 1][0].as_u64().unwrap_or(0);
            if !ok {
                return Err(format!("{}: share metadata differs from the policy position ({},{})", path, g, m));
            }
            let id = format!("split:{}", atom[1]);
            let ident = sh.identifier().to_be_bytes().to_vec();
            if let Some(b) = ctx.bind.get(&id) {
                if *b != ident {
                    return Err(format!("{}: shares of one split carry different identifiers", path));
                }
            } else {
                ctx.bind.insert(id, ident);
            }
        }
        _ => {}
    }
    ctx.bind.insert(key_of(atom), bytes);
    Ok(())
}

fn tag_of(v: &Value) -> &str {
    v.get(0).and_then(|x| x.as_str()).unwrap_or("")
}

pub fn case_name(e: &Envelope) -> &'static str {
    match e.case() {
        EnvelopeCase::Node { .. } => "node",
        EnvelopeCase::Leaf { .. } => "leaf",
        EnvelopeCase::Wrapped { .. } => "wrap",
        EnvelopeCase::Assertion(_) => "assn",
        EnvelopeCase::Elided(_) => "elided",
        EnvelopeCase::KnownValue { .. } => "kv",
        EnvelopeCase::Encrypted(_) => "enc",
        EnvelopeCase::Compressed(_) => "comp",
    }
}

/// Digest term carried by an annotated element.
pub fn ann_digest_term(exp: &Value) -> &Value {
    match tag_of(exp) {
        "leaf" | "kv" | "wrap" => &exp[2],
        "assn" | "node" => &exp[3],
        _ => &exp[1], // elided / enc / comp: declared digest
    }
}

fn hexs(b: &[u8]) -> String {
    hex::encode(b)
}

/// Compare; on mismatch return a description with the path.
pub fn check(exp: &Value, real: &Envelope, ctx: &mut Ctx, keys: &Keys, path: &str) -> Result<(), String> {
    let et = tag_of(exp);
    let rt = case_name(real);
    if et != rt {
        return Err(format!("{}: expected case {} but found {}", path, et, rt));
    }
    // an opaque leaf (salt, signature, sealed message, share) seen for the first time:
    // check the predicate the specification attaches to it and bind it to its real bytes
    if let EnvelopeCase::Leaf { cbor, .. } = real.case() {
        if et == "leaf" && is_opaque_atom(&exp[1]) && !ctx.bind.contains_key(&key_of(&exp[1])) {
            bind_opaque(&exp[1], cbor, ctx, keys, path)?;
        }
    }
    // children first: their opaque values must be bound before this element's digest term can be evaluated
    match real.case() {
        EnvelopeCase::Assertion(a) => {
            check(&exp[1], &a.predicate(), ctx, keys, &format!("{}/p", path))?;
            check(&exp[2], &a.object(), ctx, keys, &format!("{}/o", path))?;
        }
        EnvelopeCase::Wrapped { envelope, .. } => {
            check(&exp[1], envelope, ctx, keys, &format!("{}/w", path))?;
        }
        EnvelopeCase::Node { subject, assertions, .. } => {
            check_node_children(exp, subject, assertions, ctx, keys, path)?;
        }
        // the content of an obscured element may hold opaque values its declared digest depends on
        EnvelopeCase::Encrypted(msg) => check_encrypted(exp, msg, ctx, keys, path)?,
        EnvelopeCase::Compressed(c) => check_compressed(exp, c, ctx, keys, path)?,
        _ => {}
    }
    // digest held by the element
    let dterm = ann_digest_term(exp);
    let want = ctx.digest(dterm).map_err(|e| format!("{}: eval: {}", path, e.0))?;
    let got = real.digest().into_owned();
    if got.data() != &want {
        return Err(format!(
            "{}: digest of {} is {} but the specification gives {}",
            path, et, hexs(got.data()), hexs(&want)
        ));
    }
    match real.case() {
        EnvelopeCase::Leaf { cbor, .. } => {
            let wantb = ctx.atom_cbor(&exp[1]).map_err(|e| format!("{}: eval: {}", path, e.0))?;
            let gotb = cbor.to_cbor_data();
            if wantb != gotb {
                return Err(format!("{}: leaf bytes {} expected {}", path, hexs(&gotb), hexs(&wantb)));
            }
        }
        EnvelopeCase::KnownValue { value, .. } => {
            if Some(value.value()) != exp[1].as_u64() {
                return Err(format!("{}: known value {} expected {}", path, value.value(), exp[1]));
            }
        }
        EnvelopeCase::Assertion(_) | EnvelopeCase::Wrapped { .. } | EnvelopeCase::Node { .. } => {}
        EnvelopeCase::Elided(_) => {}
        EnvelopeCase::Encrypted(_) | EnvelopeCase::Compressed(_) => {}
    }
    Ok(())
}

/// Subject and assertions may depend on each other for binding opaque values (an outer
/// signature signs the wrapper that is the subject; a hasRecipient assertion reveals the key
/// the subject is encrypted with): try subject-first, then assertions-first.
fn check_node_children(exp: &Value, subject: &Envelope, assertions: &[Envelope], ctx: &mut Ctx, keys: &Keys, path: &str) -> Result<(), String> {
    let mut t1 = ctx.clone();
    let e1 = match check_node_children_in_order(exp, subject, assertions, &mut t1, keys, path, true) {
        Ok(()) => {
            *ctx = t1;
            return Ok(());
        }
        Err(e) => e,
    };
    let mut t2 = ctx.clone();
    match check_node_children_in_order(exp, subject, assertions, &mut t2, keys, path, false) {
        Ok(()) => {
            *ctx = t2;
            Ok(())
        }
        Err(e2) => {
            let soft = |e: &str| e.contains("unbound") || e.contains("unknown key");
            Err(if soft(&e1) && !soft(&e2) { e2 } else { e1 })
        }
    }
}

fn check_node_children_in_order(exp: &Value, subject: &Envelope, assertions: &[Envelope], ctx: &mut Ctx, keys: &Keys, path: &str, subject_first: bool) -> Result<(), String> {
    if subject_first {
        check(&exp[1], subject, ctx, keys, &format!("{}/s", path))?;
    }
    let want_as = exp[2].as_array().ok_or("node assertions")?;
    if want_as.len() != assertions.len() {
        return Err(format!("{}: node has {} assertion elements, expected {}", path, assertions.len(), want_as.len()));
    }
    // stored order must be strictly ascending by digest
    for i in 1..assertions.len() {
        if assertions[i - 1].digest().data() >= assertions[i].digest().data() {
            return Err(format!("{}: stored assertions not strictly ascending at {}", path, i));
        }
    }
    // assertions first (a hasRecipient assertion reveals the content key the subject is encrypted with)
    let mut used = vec![false; assertions.len()];
    let mut later: Vec<(usize, &Value)> = vec![];
    for (i, wa) in want_as.iter().enumerate() {
        if has_unbound(wa, ctx) {
            later.push((i, wa));
            continue;
        }
        let d = ctx.digest(ann_digest_term(wa)).map_err(|e| format!("{}: eval: {}", path, e.0))?;
        match assertions.iter().position(|a| a.digest().data() == &d) {
            Some(j) if !used[j] => {
                used[j] = true;
                check(wa, &assertions[j], ctx, keys, &format!("{}/a{}", path, i))?
            }
            _ => return Err(format!("{}: expected assertion element with digest {} is missing", path, hexs(&d))),
        }
    }
    // elements holding fresh opaque values cannot be located by digest: match them structurally
    for (i, wa) in later {
        let mut last_err = String::from("no candidate left");
        let mut done = false;
        for j in 0..assertions.len() {
            if used[j] {
                continue;
            }
            let mut trial = ctx.clone();
            match check(wa, &assertions[j], &mut trial, keys, &format!("{}/a{}", path, i)) {
                Ok(()) => {
                    *ctx = trial;
                    used[j] = true;
                    done = true;
                    break;
                }
                Err(e) => last_err = e,
            }
        }
        if !done {
            return Err(format!("{}: no assertion element matches the expected one ({})", path, last_err));
        }
    }
    if !subject_first {
        check(&exp[1], subject, ctx, keys, &format!("{}/s", path))?;
    }
    Ok(())
}

fn check_encrypted(exp: &Value, msg: &EncryptedMessage, ctx: &mut Ctx, keys: &Keys, path: &str) -> Result<(), String> {
    // <<"enc", D, key, nonce, Ann(plain), auth>>
    let id = format!("enc:{}", key_of(&exp[3]));
    let real_bytes = msg.untagged_cbor().to_cbor_data();
    if let Some(b) = ctx.bind.get(&id) {
        if *b != real_bytes {
            return Err(format!("{}: encrypted element {} changed its bytes", path, exp[3]));
        }
        return Ok(());
    }
    let kname = exp[2].as_str().unwrap_or("");
    let key = &keys.sym_key(kname, ctx).ok_or(format!("{}: unknown key {}", path, kname))?;
    if exp[5].as_str() == Some("ok") {
        let plain = key
            .decrypt(msg)
            .map_err(|e| format!("{}: ciphertext does not open under {}: {}", path, kname, e))?;
        let inner = Envelope::try_from_cbor_data(plain.clone())
            .map_err(|e| format!("{}: plaintext is not an envelope: {}", path, e))?;
        check(&exp[4], &inner, ctx, keys, &format!("{}/plain", path))?;
        if inner.tagged_cbor().to_cbor_data() != plain {
            return Err(format!("{}: plaintext is not the canonical encoding of its envelope", path));
        }
    }
    // the specification's nonces are fresh per encryption: two encryptions (two nonce identities) never
    // share a nonce - with one key that would give away the XOR of the plaintexts (C03: no trace, C08)
    let nk = format!("nonceof:{}", hex::encode(msg.nonce().data()));
    match ctx.bind.get(&nk) {
        Some(other) if other.as_slice() != id.as_bytes() => {
            return Err(format!("{}: #nonce-reuse# the nonce of encrypted element {} was already used by {}", path, exp[3], String::from_utf8_lossy(other)));
        }
        _ => {}
    }
    ctx.bind.insert(nk, id.as_bytes().to_vec());
    ctx.bind.insert(id, real_bytes);
    Ok(())
}

fn check_compressed(exp: &Value, c: &Compressed, ctx: &mut Ctx, keys: &Keys, path: &str) -> Result<(), String> {
    // <<"comp", D, Ann(plain), state>>
    if exp[3].as_str() == Some("ok") {
        let plain = c.uncompress().map_err(|e| format!("{}: does not inflate: {}", path, e))?;
        let inner = Envelope::try_from_cbor_data(plain.clone())
            .map_err(|e| format!("{}: inflated payload is not an envelope: {}", path, e))?;
        check(&exp[2], &inner, ctx, keys, &format!("{}/plain", path))?;
        if inner.tagged_cbor().to_cbor_data() != plain {
            return Err(format!("{}: payload is not the canonical encoding of its envelope", path));
        }
    }
    Ok(())
}

/// A cheap fingerprint of a real envelope used for "source registers unchanged".
pub fn fingerprint(e: &Envelope) -> (Vec<u8>, Vec<u8>) {
    (e.tagged_cbor().to_cbor_data(), e.structural_digest().data().to_vec())
}
